"""C05 -- warm starts and regularisation paths solve the problem they are asked (families S, D)."""
import itertools
import numpy as np

from checks.common import Unit, X_of, mk_sep_penalty, feasible
from checks import driver as DR
from checks import steps as ST
from checks.steps import dh

EXPLANATION = ("Single real coordinate/group/row steps from an arbitrary consistent state keep Xw == X w + b (inductive "
               "invariant); bounded driver runs from symbolic warm starts return the caller's buffers in a consistent state; "
               "the real AndersonCD.path on a symbolic 2-point grid (any order) certifies each grid point for its own alpha.")
ASSUMPTIONS = ["exact reals; catalogue matrices; warm start = any (feasible) w with Xw = X w + b", 
               "path(): sklearn check_array stubbed to identity in the symbolic run; budgets per grid point (max_iter=1, no epoch)"]
BOUNDS = dict(quick="n<=3, p<=2; budgets (1,1); grid length 2", thorough="more compositions, budgets (2,1)")


def u_path(h, penalty, X, fit_intercept, with_init, sparse=False, epochs=0):
    """real AndersonCD.path on a 2-point grid with no order assumed; per grid point: the certificate holds for
    *its* alpha, and coefs[:, t] are consistent with what the solver was asked"""
    import skglm.solvers.anderson_cd as acd
    import skglm.solvers as S
    Xc = X_of(X)
    n, p = Xc.shape
    tol = h.real('tol')
    h.assume(tol > 0)
    pen, meta = mk_sep_penalty(h, penalty, p=p, concrete_hyper=True)
    df, y, dmeta = DR.mk_datafit(h, 'Quadratic', n)
    a1, a2 = h.real('alpha1'), h.real('alpha2')
    h.assume(a1 > 0, a2 > 0)
    alphas = [a1, a2]
    nw = p + (1 if fit_intercept else 0)
    w_init = None
    if with_init:
        w_init = h.vec('wi', nw)
        for j in range(p):
            h.assume(feasible(h, meta, w_init[j]))
    solver = S.AndersonCD(max_iter=1, max_epochs=epochs, p0=1 if epochs == 0 else p, tol=tol, fit_intercept=fit_intercept)
    Xd = h.const(Xc)
    Xarg = h.csc(Xd) if sparse else Xd
    old = acd.check_array
    if h.mode == 'sym':
        acd.check_array = lambda a, *args, **kw: a
    try:
        res = solver.path(Xarg, y, df, pen, alphas=h.arr(alphas) if h.mode == 'sym' else np.array(alphas),
                          w_init=w_init)
    finally:
        acd.check_array = old
    _, coefs, stop_crits = res[:3]
    R = DR.Rec()
    R.cfg = dict(solver='AndersonCD', ws_strategy='subdiff')
    R.n, R.p, R.Xc, R.y, R.df, R.dmeta, R.pen, R.meta = n, p, Xc, y, df, dmeta, pen, meta
    R.fit_intercept = fit_intercept
    for t in range(2):
        w = [coefs[k, t] for k in range(nw)]
        for k in range(nw):
            h.observe('coef%d_%d' % (k, t), w[k])
        pen.alpha = alphas[t]
        meta['alpha'] = alphas[t]
        sc = stop_crits[t]
        stopped = h.le(sc, tol)
        if (h.mode == 'sym' and bool(stopped)) or (h.mode != 'sym' and stopped.strict):
            terms = DR.violation_terms(h, R, w)
            ok = h.true()
            for tm in terms:
                ok = h.and_(ok, h.false() if DR._isinf(tm) else h.le(tm, tol))
            h.ensure('certificate-for-alpha[%d]' % t, ok)
        else:
            h.ensure('certificate-for-alpha[%d]' % t, True)
    if epochs:
        return          # (the moved grid points are judged by their certificates above)
    # with no epoch granted, grid point 0 returns its start: the user's w_init (or zeros)
    for k in range(nw):
        start = w_init[k] if with_init else 0.0
        h.ensure('start-honoured[%d]' % k, h.eq(coefs[k, 0], start))
        h.ensure('grid-point-1-starts-from-0[%d]' % k, h.eq(coefs[k, 1], coefs[k, 0]))


def u_mt_path(h, fit_intercept, with_init, sparse=False):
    """real MultiTaskBCD.path (one task) on a 2-point grid, optionally from a user W_init (documented shape
    (n_tasks, n_features [+1])): no exception, each grid point certified for its own alpha, the start is honoured"""
    import skglm.solvers.multitask_bcd as mtb
    import skglm.solvers as S
    Pm, Dm = ST.P(), ST.D()
    Xc = X_of('corr32')
    n, p = Xc.shape
    tol = h.real('tol')
    a1, a2 = h.real('alpha1'), h.real('alpha2')
    h.assume(tol > 0, a1 > 0, a2 > 0)
    Y = h.mat('Y', n, 1)
    pen = h.penalty(Pm.L2_1, alpha=a1)
    df = h.datafit(Dm.QuadraticMultiTask)
    nw = p + (1 if fit_intercept else 0)
    W_init = h.mat('Wi', 1, nw) if with_init else None
    Xd = h.const(Xc)
    Xa = h.csc(Xd) if sparse else Xd
    sol = S.MultiTaskBCD(max_iter=1, max_epochs=0, p0=1, tol=tol, fit_intercept=fit_intercept, use_acc=False)
    saved = []
    if h.mode == 'sym':
        ident = lambda a, *args, **kw: a
        saved.append((mtb, 'check_array', mtb.check_array))
        mtb.check_array = ident
    try:
        res = sol.path(Xa, Y, df, pen, alphas=h.arr([a1, a2]) if h.mode == 'sym' else np.array([float(a1), float(a2)]),
                       W_init=W_init)
    finally:
        for mod, name, val in saved:
            setattr(mod, name, val)
    _, coefs, stop_crits = res[:3]
    h.ensure('coefs-shape', tuple(coefs.shape) == (1, nw, 2))
    for t, al in enumerate((a1, a2)):
        W = [[coefs[0, k, t]] for k in range(nw)]
        Wm = h.arr(W) if h.mode == 'sym' else np.array(W, dtype=float)
        for k in range(nw):
            h.observe('coef%d_%d' % (k, t), coefs[0, k, t])
        stopped = h.le(stop_crits[t], tol)
        if (h.mode == 'sym' and bool(stopped)) or (h.mode != 'sym' and stopped.strict):
            ok = h.true()
            for tm in ST.mt1_violation_terms(h, Xc, Y, Wm, al, fit_intercept):
                ok = h.and_(ok, h.le(tm, tol))
            h.ensure('certificate-for-alpha[%d]' % t, ok)
        else:
            h.ensure('certificate-for-alpha[%d]' % t, True)
    for k in range(nw):
        start = W_init[0, k] if with_init else 0.0
        h.ensure('start-honoured[%d]' % k, h.eq(coefs[0, k, 0], start))


def u_sqrt_path(h, order):
    """SqrtLasso.path on a 3-point grid given in any order: BaseSolver.solve is replaced by a contract stub that behaves like
    the real solvers do -- it UPDATES the caller's w_init IN PLACE and returns it (obligation 'returns-caller-w' of the D
    units) -- with arbitrary symbolic results.  After the whole path, row t of coefs must be what the solver returned for
    the t-th largest alpha (no later solve may overwrite it), every solve is asked its own alpha, and the start of solve t
    is consistent with the Xw_init it receives."""
    from skglm.experimental.sqrt_lasso import SqrtLasso
    from checks import estim as ES
    n, p = 3, 2
    X = h.mat('X', n, p)
    y = h.vec('y', n)
    a = [h.real('alpha%d' % k) for k in range(3)]
    # a strictly ordered grid handed over in the given order (np.sort on symbolic values would fork over all orders)
    h.assume(a[0] > a[1], a[1] > a[2], a[2] > 0)
    grid = [a[k] for k in order]
    est = SqrtLasso(alpha=1.0, tol=1e-6, max_iter=3)
    rets, asked = [], []

    def result(k, call):
        asked.append(call['penalty'].alpha)
        wi = call['w_init']
        ok = h.true()
        for i in range(n):
            ok = h.and_(ok, h.eq(call['Xw_init'][i], sum(X[i, j] * wi[j] for j in range(p))))
        h.ensure('start-buffer-consistent[%d]' % k, ok)
        vals = [h.real('c%d_%d' % (k, j)) for j in range(p)]
        for j in range(p):
            wi[j] = vals[j]                 # in-place update of the caller's array, as the real solvers do
        rets.append(vals)
        return wi, (h.arr([0.0]) if h.mode == 'sym' else np.array([0.0])), 0.0
    import skglm.experimental.sqrt_lasso as SL
    old_sort = SL.np.sort if h.mode == 'sym' else None
    with ES.sklearn_stubs(h):
        with ES.intercept_solve(h, result) as cap:
            if h.mode == 'sym':
                # symbolic grid: the ordering is fixed by the assumptions above, sort accordingly (decreasing after [::-1])
                SL.np = _SortShim(SL.np, a)
            try:
                alphas, coefs = est.path(X, y, alphas=h.arr(grid) if h.mode == 'sym' else np.array([float(v) for v in grid]))[:2]
            finally:
                if h.mode == 'sym':
                    SL.np = SL.np._inner
    h.ensure('one-solve-per-alpha', len(cap.calls) == 3)
    for t in range(min(3, len(rets))):
        h.ensure('solve-%d-asked-its-alpha' % t, h.eq(asked[t], a[t]))
        row = h.true()
        for j in range(p):
            row = h.and_(row, h.eq(coefs[t, j], rets[t][j]))
        h.ensure('coefs-row-%d-is-the-solution-for-alpha-%d' % (t, t), row)
    h.observe('x', rets[0][0])


class _SortShim:
    """np proxy for the path's `np.sort(alphas)[::-1]` on a symbolic grid whose order is known from the assumptions"""

    def __init__(self, inner, ordered_desc):
        self._inner, self._desc = inner, ordered_desc

    def __getattr__(self, k):
        return getattr(self._inner, k)

    def sort(self, arr, *a, **k):
        out = self._inner.array(list(self._desc)[::-1], dtype=object)
        return out


def u_warm_refit(h, kind, fi1, fi2):
    """refit of a warm_start estimator after changing hyper-parameters (fit_intercept fi1 -> fi2, alpha): the start
    point handed to the solver is the previous solution and its model-fit buffer is consistent with it"""
    import skglm
    from checks import estim as ES
    n, p = 3, 2
    X = h.mat('X', n, p)
    A1, A2 = h.real('alpha1'), h.real('alpha2')
    h.assume(A1 > 0, A2 > 0)
    rets = []

    def result(k, call):
        nw = p + (1 if call['solver'].fit_intercept else 0)
        r = ES.sym_result(h, nw, tag='c%d_' % k)
        rets.append(r)
        return r
    if kind == 'SparseLogisticRegression':
        y = np.array(['a', 'b', 'a'])
        est = skglm.SparseLogisticRegression(alpha=A1, fit_intercept=fi1, warm_start=True)
    else:
        from skglm.datafits import Logistic
        from skglm.penalties import L1
        from skglm.solvers import AndersonCD
        y = np.array([0, 1, 0])
        est = skglm.GeneralizedLinearEstimator(Logistic(), L1(A1), AndersonCD(fit_intercept=fi1, warm_start=True))
    with ES.sklearn_stubs(h):
        with ES.intercept_solve(h, result) as cap:
            est.fit(X, y)
            if kind == 'SparseLogisticRegression':
                est.alpha = A2
                est.fit_intercept = fi2
            else:
                est.penalty.alpha = A2
                est.solver.fit_intercept = fi2
            est.fit(X, y)
    h.ensure('two-solves', len(cap.calls) == 2)
    c2 = cap.calls[1]
    prev = rets[0][0]
    w2, Xw2 = c2['w_init'], c2['Xw_init']
    h.observe('w0', w2[0])
    h.ensure('start-length', len(w2) == p + (1 if fi2 else 0))
    ok = h.true()
    for j in range(p):
        ok = h.and_(ok, h.eq(w2[j], prev[j]))
    h.ensure('starts-from-previous-coefficients', ok)
    b2 = w2[p] if fi2 else 0.0
    cons = h.true()
    for i in range(n):
        cons = h.and_(cons, h.eq(Xw2[i], sum(X[i, j] * w2[j] for j in range(p)) + b2))
    h.ensure('start-model-fit-consistent', cons)


def units(tier):
    us = []
    q = tier == 'quick'
    comps = [('Quadratic', 'L1'), ('Quadratic', 'WeightedL1'), ('Quadratic', 'L1_plus_L2+'), ('Quadratic', 'MCPenalty'),
             ('Quadratic', 'IndicatorBox'), ('WeightedQuadratic', 'L1'), ('Huber', 'L1'), ('QuadraticSVC', 'IndicatorBox')]
    for (df, pen), X in itertools.product(comps, ['corr32', 'gen32'] if q else ['corr32', 'gen32', 'dup32', 'zero_last32']):
        for j in (0, 1):
            for fi in (False, True):
                if df == 'QuadraticSVC' and fi:
                    continue
                if q and dh((df, pen, X, j, fi)) % 2:
                    continue
                Xn = 'orth22' if df == 'Huber' else X
                us.append(Unit('C05/S/cd_step[%s,%s,X=%s,j=%d,intercept=%s]' % (df, pen, Xn, j, fi), ST.u_cd_step,
                               dict(datafit=df, penalty=pen, X=Xn, j=j, fit_intercept=fi, descent=False), wall_s=60))
    for lay, X in (('rev', 'corr32'), ('pair', 'gen32'), ('nc3', 'corr33')):
        for g in range(len(DR.GROUP_LAYOUTS[lay])):
            us.append(Unit('C05/S/group_step[QuadraticGroup,layout=%s,X=%s,g=%d]' % (lay, X, g), ST.u_group_step,
                           dict(datafit='QuadraticGroup', layout=lay, X=X, g=g), wall_s=90, timeout_ms=8000))
    # the CSC group epoch keeps Xw in sync exactly as the dense one does (also when a block is thresholded to zero)
    for lay, X in (('single', 'corr32'), ('rev', 'gen32')) + ((('pair', 'gen32'),) if not q else ()):
        for g in range(len(DR.GROUP_LAYOUTS[lay])):
            us.append(Unit('C05/S/group_step_csc[QuadraticGroup,layout=%s,X=%s,g=%d]' % (lay, X, g), ST.u_group_step,
                           dict(datafit='QuadraticGroup', layout=lay, X=X, g=g, sparse_epoch=True), wall_s=90, timeout_ms=8000))
    for X in ('corr32', 'gen32'):
        for j in (0, 1):
            us.append(Unit('C05/S/multitask_step[X=%s,j=%d]' % (X, j), ST.u_multitask_step, dict(X=X, j=j, T=2), wall_s=90))
    for pen, X in itertools.product(['L1', 'WeightedL1'] + ([] if q else ['L1_plus_L2']), ['corr32', 'gen32']):
        for greedy in (False, True):
            if q and dh((pen, X, greedy)) % 2:
                continue
            us.append(Unit('C05/S/gram_step[%s,X=%s,greedy=%s]' % (pen, X, greedy), ST.u_gram_step,
                           dict(penalty=pen, X=X, greedy=greedy), wall_s=90, timeout_ms=8000))
    # D: warm-started bounded runs return consistent caller buffers
    runs = []
    for (df, pen), fi, strat, sparse in itertools.product([('Quadratic', 'L1'), ('Quadratic', 'WeightedL1')], (False, True),
                                                          ('subdiff', 'fixpoint'), (False, True)):
        if q and dh((df, pen, fi, strat, sparse)) % 4:
            continue
        runs.append(dict(solver='AndersonCD', datafit=df, penalty=pen, X='corr32', max_iter=1, max_epochs=1, p0=1,
                         fit_intercept=fi, ws_strategy=strat, warm=True, sparse=sparse))
    # accepted extrapolation with a working set smaller than the warm-start support candidates (p0=1): the
    # coefficients outside the working set must not be lost (contract stub fires at the first epoch)
    for pen, fi in ((('L1', False), ('L1', True)) if q else
                    [(pen, fi) for pen in ('L1', 'WeightedL1', 'L1_plus_L2', 'MCPenalty') for fi in (False, True)]):
        runs.append(dict(solver='AndersonCD', datafit='Quadratic', penalty=pen, X='corr32', max_iter=1, max_epochs=1,
                         max_epochs_unpatched=7, acc_stub=1, p0=1, fit_intercept=fi, ws_strategy='subdiff', warm=True))
    # ... and with unpenalised features: 2 zero weights + a warm start supported on the 2 penalised features, p0 = 1:
    # |unpenalised U support| = 4 > working-set size 3 (F12)
    for sp in (False, True):
        runs.append(dict(solver='AndersonCD', datafit='Quadratic', penalty='WeightedL1', X='gen34', max_iter=1, max_epochs=1,
                         max_epochs_unpatched=7, acc_stub=1, p0=1, fit_intercept=False, ws_strategy='subdiff', warm=True,
                         weights_concrete=[1.0, 2.0, 0.0, 0.0], w0_concrete=[2.0, -1.0, 0.0, 0.0], acc_catalogue=[1.0, 0.0],
                         keep_design=True, ylabels=[1.0, -2.0, 3.0], sparse=sp))
    if not q:
        runs.append(dict(solver='ProxNewton', datafit='Quadratic', penalty='L1', X='corr32', max_iter=1, max_pn_iter=1, p0=2,
                         fit_intercept=False, ws_strategy='subdiff', warm=True))
    for c in runs:
        cid = ','.join('%s=%s' % (k, c[k]) for k in sorted(c))
        us.append(Unit('C05/D/run[%s]' % cid, ST.u_run, dict(cfg=c, want=('buffer',)), wall_s=120, max_paths=4000,
                       timeout_ms=8000, patched=c['solver'] == 'ProxNewton' or bool(c.get('acc_stub'))))
    c2 = dict(solver='AndersonCD', datafit='Quadratic', penalty='L1', X='corr33', max_iter=2, max_epochs=1, max_epochs_unpatched=7, acc_stub=1, p0=1, fit_intercept=False, ws_strategy='subdiff', warm=True, w0_concrete=[2.0, 0.0, 0.0], ylabels=[1.0, -2.0, 3.0], acc_catalogue=[1.0, -0.5, 0.0], two_iter=True)
    us.append(Unit('C05/D/two-iterations[%s]' % ','.join('%s=%s' % (k, c2[k]) for k in sorted(c2)), ST.u_run,
                   dict(cfg=c2, want=('buffer', 'history')), wall_s=200, max_paths=6000, timeout_ms=8000, patched=True))
    for pen, fi, wi, sp in itertools.product(['L1', 'WeightedL1'], (False, True), (False, True), (False, True)):
        if q and dh((pen, fi, wi, sp)) % 2:
            continue
        us.append(Unit('C05/D/path[%s,intercept=%s,w_init=%s,sparse=%s]' % (pen, fi, wi, sp), u_path,
                       dict(penalty=pen, X='corr32', fit_intercept=fi, with_init=wi, sparse=sp), wall_s=120, timeout_ms=8000))
    # a path whose grid points MOVE (one epoch each, cold start): grid point 1 is warm-started from point 0 through path()'s
    # own (w, Xw) pair, which the solver must have kept in sync
    for fi, sp in ((False, False), (False, True)) if q else ((False, False), (False, True), (True, False), (True, True)):
        us.append(Unit('C05/D/moving-path[L1,intercept=%s,sparse=%s]' % (fi, sp), u_path,
                       dict(penalty='L1', X='corr32', fit_intercept=fi, with_init=False, sparse=sp, epochs=1), wall_s=120,
                       timeout_ms=8000))
    for fi, wi, sp in itertools.product((False, True), (False, True), (False, True)):
        if q and sp and not wi:
            continue
        us.append(Unit('C05/D/MultiTaskBCD.path[intercept=%s,W_init=%s,sparse=%s]' % (fi, wi, sp), u_mt_path,
                       dict(fit_intercept=fi, with_init=wi, sparse=sp), wall_s=90, timeout_ms=8000))
    for order in ((0, 1, 2), (2, 1, 0), (1, 2, 0)):
        us.append(Unit('C05/E/SqrtLasso.path[grid order=%s]' % (order,), u_sqrt_path, dict(order=order), wall_s=60))
    for X, fi in (('corr32', False), ('corr32', True), ('gen32', True)):
        us.append(Unit('C05/S/pn_linesearch[X=%s,intercept=%s]' % (X, fi), ST.u_pn_linesearch, dict(X=X, fit_intercept=fi),
                       wall_s=120, timeout_ms=8000, patched=True))
    for fi in (False, True):
        us.append(Unit('C05/S/group_pn_linesearch[intercept=%s]' % fi, ST.u_pn_linesearch,
                       dict(X='corr32', fit_intercept=fi, group=True), wall_s=120, timeout_ms=8000, patched=True))
    for kind in ('SparseLogisticRegression', 'GeneralizedLinearEstimator'):
        for fi1, fi2 in ((True, False), (False, True), (True, True), (False, False)):
            us.append(Unit('C05/E/warm-refit[%s,fit_intercept=%s->%s]' % (kind, fi1, fi2), u_warm_refit,
                           dict(kind=kind, fi1=fi1, fi2=fi2), wall_s=60))
    return us


MANIFEST = dict(
    claimed=True,
    level_text=("Bounded symbolic model checking: (S) one real coordinate / group / task-row / Gram step from an arbitrary "
                "consistent state keeps the model-fit buffer equal to X w + b for all data -- an inductive invariant that "
                "covers warm starts and histories of any length; (D) bounded runs of the real drivers from symbolic warm starts "
                "return the caller's own buffers in a consistent state; the real AndersonCD.path on a symbolic 2-point grid "
                "(no order assumed, optional symbolic w_init incl. empty support with non-zero intercept) yields for each grid "
                "point a certificate valid for that point's alpha."),
    level_note=("Exact reals; catalogue matrices n<=3, p<=3; budgets (1,1); grid length 2 with no inner epoch (longer grids "
                "through the inductive reading); check_array stubbed in the symbolic path run. MultiTaskBCD.path, estimator "
                "warm_start refits and the SqrtLasso path are not covered yet."),
)
