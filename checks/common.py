"""Shared builders for check modules: penalties / datafits with symbolic hyper-parameters, X catalogue."""
import itertools
import numpy as np

from vf.harness import Unit  # noqa
from vf.sym import _isinf


def P():
    import skglm.penalties as m
    return m


def D():
    import skglm.datafits as m
    return m


# ---- penalties with symbolic hyper-parameters ---------------------------------------------------
SEP_CONVEX = ['L1', 'L1+', 'L1_plus_L2', 'L1_plus_L2+', 'WeightedL1', 'WeightedL1+', 'IndicatorBox',
              'PositiveConstraint']
SEP_NONCONVEX = ['MCPenalty', 'MCPenalty+', 'WeightedMCPenalty', 'WeightedMCPenalty+', 'SCAD']
SEP_ROOT = ['L0_5', 'L2_3', 'LogSumPenalty']


HYPER_CATALOGUE = dict(l1_ratio=0.5, gamma_mcp=3.0, gamma_scad=3.7, eps=1.0)


def mk_sep_penalty(h, name, p=2, step=None, weights=None, alpha=None, zero_weight=None, gamma=None,
                   concrete_hyper=False):
    """Build a separable penalty by short name; returns (penalty, meta).

    meta: positive(bool), box(None|alpha), convex(bool), rho (weak-convexity modulus, symbolic or 0)
    ``step``: when given, the admissible-step assumptions of non-convex penalties are added.
    """
    Pm = P()
    positive = name.endswith('+')
    base = name.rstrip('+')
    al = alpha if alpha is not None else h.real('alpha')
    h.assume(al > 0)
    meta = dict(positive=positive, box=None, convex=True, alpha=al, weights=None, name=name)
    if base in ('WeightedL1', 'WeightedMCPenalty'):
        if weights is None:
            weights = h.vec('wt', p)
            for j in range(p):
                h.assume(weights[j] >= 0)
        if zero_weight is not None:
            zws = list(zero_weight) if isinstance(zero_weight, (list, tuple)) else [zero_weight]
            for zw in zws:
                h.assume(weights[zw] == 0)
            if isinstance(zero_weight, (list, tuple)):
                # a zero-weight LAYOUT: the other features are genuinely penalised
                for j in range(p):
                    if j not in zws:
                        h.assume(weights[j] > 0)
        meta['weights'] = weights
    if base == 'L1':
        pen = h.penalty(Pm.L1, alpha=al, positive=positive)
    elif base == 'L1_plus_L2':
        r = h.constant(HYPER_CATALOGUE['l1_ratio']) if concrete_hyper else h.real('l1_ratio')
        h.assume(r >= 0, r <= 1)
        meta['l1_ratio'] = r
        pen = h.penalty(Pm.L1_plus_L2, alpha=al, l1_ratio=r, positive=positive)
    elif base == 'WeightedL1':
        pen = h.penalty(Pm.WeightedL1, alpha=al, weights=weights, positive=positive)
    elif base == 'MCPenalty':
        g = h.constant(gamma or HYPER_CATALOGUE['gamma_mcp']) if concrete_hyper else h.real('gamma')
        h.assume(g > 0)
        if step is not None:
            h.assume(g > step)
        meta.update(convex=False, gamma=g)
        pen = h.penalty(Pm.MCPenalty, alpha=al, gamma=g, positive=positive)
    elif base == 'WeightedMCPenalty':
        g = h.constant(gamma or HYPER_CATALOGUE['gamma_mcp']) if concrete_hyper else h.real('gamma')
        h.assume(g > 0)
        if step is not None:
            for j in range(p):
                h.assume(g > step * weights[j])
        meta.update(convex=False, gamma=g)
        pen = h.penalty(Pm.WeightedMCPenalty, alpha=al, gamma=g, weights=weights, positive=positive)
    elif base == 'SCAD':
        g = (h.real('gamma') if not concrete_hyper else h.constant(HYPER_CATALOGUE['gamma_scad'])) if gamma is None else h.constant(gamma)
        h.assume(g > 2)
        if step is not None:
            h.assume(g - 1 > step)
        meta.update(convex=False, gamma=g)
        pen = h.penalty(Pm.SCAD, alpha=al, gamma=g)
    elif base == 'IndicatorBox':
        meta['box'] = al
        pen = h.penalty(Pm.IndicatorBox, alpha=al)
    elif base == 'PositiveConstraint':
        meta['positive'] = True
        meta['constraint_in_value'] = True
        pen = h.penalty(Pm.PositiveConstraint)
    elif base == 'L0_5':
        meta.update(convex=False)
        pen = h.penalty(Pm.L0_5, alpha=al)
    elif base == 'L2_3':
        meta.update(convex=False)
        pen = h.penalty(Pm.L2_3, alpha=al)
    elif base == 'LogSumPenalty':
        e = h.constant(HYPER_CATALOGUE['eps']) if concrete_hyper else h.real('eps')
        h.assume(e > 0)
        meta.update(convex=False, eps=e)
        pen = h.penalty(Pm.LogSumPenalty, alpha=al, eps=e)
    else:
        raise KeyError(name)
    return pen, meta


def feasible(h, meta, v):
    """condition: scalar v satisfies the constraint configured in the penalty"""
    c = h.true()
    if meta.get('positive'):
        c = h.and_(c, h.ge(v, 0))
    if meta.get('box') is not None:
        c = h.and_(c, h.and_(h.ge(v, 0), h.le(v, meta['box'])))
    return c


def pen_value_1d(h, pen, t, j, p):
    """penalty.value on the vector t*e_j of length p (other coordinates exactly 0)."""
    vals = [0.0] * p
    vals[j] = t
    return pen.value(h.arr(vals))


# ---- design matrices ------------------------------------------------------------------------------
XCAT = {
    'corr32': [[1, 1], [1, 2], [0, 1]],          # strongly correlated columns (needed for F11)
    'gen32': [[1, 0], [2, 1], [-1, 1]],          # generic full rank, negative entry
    'orth22': [[1, 1], [1, -1]],
    'diag22': [[1, 0], [0, 2]],                  # orthogonal columns, unequal norms (global Lipschitz != coordinate ones)
    'shear22': [[1, 2], [0, 1]],                 # |<X0,X1>| > ||X0||^2: off-diagonal curvature dominates a diagonal entry
    'shear32': [[1, 3], [1, 0], [0, 1]],         # same, with a rational spectral norm (X^T X has eigenvalues 11 and 1)
    'tri22': [[1, 0], [1, 1]],                   # square, correlated columns                 # orthogonal, equal norms
    'wide23': [[1, 2, 0], [0, 1, 1]],            # n < p
    'dup32': [[1, 1], [2, 2], [1, 1]],           # duplicated column
    'zero_last32': [[1, 0], [2, 0], [1, 0]],     # all-zero column (last)
    'zero_first32': [[0, 1], [0, 2], [0, -1]],   # all-zero column (first)
    'const32': [[1, 1], [1, 2], [1, 4]],         # constant column
    'single31': [[1], [2], [-1]],
    'col21': [[1], [2]],                         # with an intercept column: square invertible                # single feature
    'scale32': [[1024, 2 ** -10], [2048, 2 ** -9], [1024, -2 ** -10]],   # widely different scales (dyadic: exact in floats)
'inv33': [[1, 0, 1], [2, 1, 0], [-1, 1, 1]],   # square, invertible
    'gen43': [[1, 0, 2], [2, 1, 0], [-1, 1, 1], [0, 2, -1]],
    'gen34': [[1, 0, 2, 1], [2, 1, 0, -1], [-1, 1, 1, 0]],   # p = 4 > n: room for 2 penalised + 2 unpenalised features
    'corr33': [[1, 1, 0], [1, 2, 1], [0, 1, 1]],
    'zero_mid33': [[1, 0, 1], [2, 0, 0], [-1, 0, 1]],
}


def X_of(name):
    return np.array(XCAT[name], dtype=float)


def all_patterns(n, p):
    for bits in itertools.product([False, True], repeat=n * p):
        yield [list(bits[i * p:(i + 1) * p]) for i in range(n)]


def finite_or_flag(h, v):
    """-> (is_inf: bool, value) for values that may be the float inf returned by indicator penalties."""
    if h.mode == 'sym':
        return _isinf(v), v
    return (not np.isfinite(v)), v


def dderiv(h, f, base, direction, shape=None, onesided=False):
    """directional derivative of the scalar function f at the array ``base`` along ``direction``.
    symbolic mode: dual numbers through the real code (exact, one-sided at kinks);
    concrete replay: central finite difference (confirmation only)."""
    if h.mode == 'sym':
        from vf.dual import Dual, tangent
        flat = [Dual(b, d) if not (isinstance(d, (int, float)) and d == 0) else b for b, d in zip(base, direction)]
        arr = h.arr(flat)
        if shape is not None:
            arr = arr.reshape(shape)
        return tangent(f(arr))
    b = np.asarray(base, dtype=float)
    d = np.asarray(direction, dtype=float)
    e = 1e-6 * (1.0 + float(np.max(np.abs(b))) if b.size else 1e-6)
    bp, bm = b + e * d, b - e * d
    if shape is not None:
        bp, bm = bp.reshape(shape), bm.reshape(shape)
    if onesided:
        b0 = b.reshape(shape) if shape is not None else b
        return (f(bp) - f(b0)) / e
    return (f(bp) - f(bm)) / (2 * e)
