"""C04 -- constraints hold and output is finite at every stopping point (families K, S, D)."""
import itertools

from checks.common import Unit
from checks import driver as DR
from checks import steps as ST
from checks.steps import dh

EXPLANATION = ("Feasibility (w >= 0, or w in [0, C]) is an invariant of every real primitive step from every feasible state, "
               "of every bounded driver run, and of the accepted Anderson-extrapolated point (period patched to K=2, "
               "arbitrary linear-solve result); no exception / non-finite path exists on finite inputs.")
ASSUMPTIONS = ["exact reals (IEEE rounding outside)", "stubbed numpy.linalg.solve; K=5 -> 2 patch, confirmed unpatched before reporting"]
BOUNDS = dict(quick="catalogue X; budgets (2,1), K=2 acceptance on 1 feature + intercept", thorough="more penalties / designs")

POS = ['L1+', 'L1_plus_L2+', 'WeightedL1+', 'MCPenalty+', 'WeightedMCPenalty+', 'PositiveConstraint', 'IndicatorBox']


def units(tier):
    us = []
    q = tier == 'quick'
    for pen, X in itertools.product(POS, ['corr32', 'gen32']):
        for j in (0, 1):
            for fi in (False, True):
                if q and dh((pen, X, j, fi)) % 2:
                    continue
                us.append(Unit('C04/S/cd_step[Quadratic,%s,X=%s,j=%d,intercept=%s]' % (pen, X, j, fi), ST.u_cd_step,
                               dict(datafit='Quadratic', penalty=pen, X=X, j=j, fit_intercept=fi, descent=False), wall_s=60))
    us.append(Unit('C04/S/cd_step[QuadraticSVC,IndicatorBox,X=gen32,j=0]', ST.u_cd_step,
                   dict(datafit='QuadraticSVC', penalty='IndicatorBox', X='gen32', j=0, fit_intercept=False, descent=False), wall_s=60))
    for pen, X in itertools.product(['L1+', 'WeightedL1+', 'IndicatorBox'] + ([] if q else ['MCPenalty+']), ['corr32']):
        for greedy in (False, True):
            us.append(Unit('C04/S/gram_step[%s,X=%s,greedy=%s]' % (pen, X, greedy), ST.u_gram_step,
                           dict(penalty=pen, X=X, greedy=greedy), wall_s=90, timeout_ms=8000))
    for lay, X in (('rev', 'corr32'), ('pair', 'gen32')):
        for g in range(len(DR.GROUP_LAYOUTS[lay])):
            us.append(Unit('C04/S/group_step[QuadraticGroup+,layout=%s,X=%s,g=%d]' % (lay, X, g), ST.u_group_step,
                           dict(datafit='QuadraticGroup', layout=lay, X=X, g=g, positive=True, sparse_twin=False),
                           wall_s=90, timeout_ms=8000))
    runs = []
    for pen in (POS[:3] if q else POS):
        runs.append(dict(solver='AndersonCD', datafit='Quadratic', penalty=pen, X='corr32', max_iter=2, max_epochs=1, p0=1,
                         fit_intercept=True, ws_strategy='subdiff', warm=False))
    acc = [('L1+', False), ('WeightedL1+', False), ('L1+', True), ('L1_plus_L2+', False)] if q else \
        [(pen, fi) for pen in POS for fi in (False, True)]
    for pen, fi in acc:
        runs.append(dict(solver='AndersonCD', datafit='Quadratic', penalty=pen, X='corr32', max_iter=1, max_epochs=1,
                         max_epochs_unpatched=7, acc_stub=1, p0=2, fit_intercept=fi, ws_strategy='subdiff', warm=True))
    # GramCD: an extrapolated point is only taken when it is feasible (its penalty value is finite)
    for pen in (('L1+', 'IndicatorBox') if q else ('L1+', 'WeightedL1+', 'IndicatorBox', 'PositiveConstraint')):
        runs.append(dict(solver='GramCD', datafit='Quadratic', penalty=pen, X='corr32', max_iter=1, max_iter_unpatched=7,
                         acc_stub=1, use_acc=True, greedy_cd=False, warm=True, fit_intercept=False))
    # warm start from an arbitrary -- possibly infeasible -- point (e.g. the solution of the unconstrained problem):
    # one outer iteration with one epoch must return a feasible vector, converged or not
    for pen, fi in ((('L1+', False), ('WeightedL1+', False), ('L1+', True), ('IndicatorBox', False)) if q else
                    [(pen, fi) for pen in POS for fi in (False, True)]):
        runs.append(dict(solver='AndersonCD', datafit='Quadratic', penalty=pen, X='corr32', max_iter=1, max_epochs=1, p0=1,
                         fit_intercept=fi, ws_strategy='subdiff', warm=True, infeasible_start=True))
    for c in runs:
        cid = ','.join('%s=%s' % (k, c[k]) for k in sorted(c))
        us.append(Unit('C04/D/run[%s]' % cid, ST.u_run, dict(cfg=c, want=('feasible',)), wall_s=150, max_paths=5000,
                       timeout_ms=8000, patched=bool(c.get('K') or c.get('acc_stub'))))
    return us


MANIFEST = dict(
    claimed=True,
    level_text=("Bounded symbolic model checking: feasibility (non-negativity / box) is preserved by every real coordinate, "
                "Gram and group step from every feasible state (inductive, hence for every budget, tolerance and warm start), "
                "holds at every return of bounded driver runs, and holds for an ACCEPTED Anderson-extrapolated point for every "
                "possible result of the inner linear solve (period patched to K=2). Exceptions and division by zero on a "
                "feasible path are violations."),
    level_note=("Exact reals; catalogue designs; prox-level feasibility incl. x=0 is in C07. IEEE-exact (fp64) kernels and "
                "GroupBCD/ProxNewton driver runs are not covered yet; K=5 -> 2 patch + stubbed linalg.solve, confirmed with "
                "unpatched constants before reporting."),
)
