"""Family E: estimator plumbing.  The real ``fit`` runs with sklearn's validators stubbed (symbolic mode) and
``BaseSolver.solve`` intercepted, so that the (datafit, penalty, solver, start point) the estimator builds from its
constructor arguments can be compared with the documented objective, and the assembly of the fitted attributes
from an arbitrary solver result can be checked."""
import contextlib

import numpy as np


class Captured:
    def __init__(self):
        self.calls = []


@contextlib.contextmanager
def intercept_solve(h, result_fn):
    """patch BaseSolver.solve: record the call, return ``result_fn(call_index, call)``"""
    from skglm.solvers.base import BaseSolver
    cap = Captured()
    orig = BaseSolver.solve

    def fake(self, X, y, datafit, penalty, w_init=None, Xw_init=None, *, run_checks=True):
        call = dict(solver=self, X=X, y=y, datafit=datafit, penalty=penalty, w_init=w_init, Xw_init=Xw_init)
        cap.calls.append(call)
        return result_fn(len(cap.calls) - 1, call)
    BaseSolver.solve = fake
    try:
        yield cap
    finally:
        BaseSolver.solve = orig


@contextlib.contextmanager
def sklearn_stubs(h):
    """identity stubs for sklearn's input validators (symbolic mode: object arrays cannot go through them)"""
    import skglm.estimators as E
    import skglm.solvers.anderson_cd as acd
    import skglm.solvers.multitask_bcd as mtb
    saved = []
    if h.mode == 'sym':
        def ident(a, *args, **kw):
            return a
        for mod in (E, acd, mtb):
            for name in ('check_array',):
                if hasattr(mod, name):
                    saved.append((mod, name, getattr(mod, name)))
                    setattr(mod, name, ident)
        saved.append((E, 'check_consistent_length', E.check_consistent_length))
        E.check_consistent_length = lambda *a, **k: None
        saved.append((E, 'check_is_fitted', E.check_is_fitted))
        E.check_is_fitted = lambda *a, **k: None
    try:
        yield
    finally:
        for mod, name, val in saved:
            setattr(mod, name, val)


def compat(est):
    """scikit-learn >= 1.6 removed BaseEstimator._validate_data, which skglm's regression estimators still call:
    give the instance an identity replacement (environment compatibility stub, listed in the evidence)."""
    def _validate_data(X, y=None, **kw):
        return (X, y) if y is not None else X
    if not hasattr(est, '_validate_data'):
        est._validate_data = _validate_data
    return est


def sym_result(h, n_coef, tag='c', n_tasks=None, n_hist=2):
    if n_tasks is None:
        coefs = h.vec(tag, n_coef)
    else:
        coefs = h.mat(tag, n_coef, n_tasks)
    hist = h.vec(tag + 'obj', n_hist)
    kkt = h.real(tag + 'kkt')
    return coefs, hist, kkt
