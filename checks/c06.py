"""C06 -- datafits are faithful: documented loss, exact derivatives, dense == sparse (family K)."""
import itertools
import numpy as np

from checks.common import Unit, D, dderiv
from vf.sym import _isinf

EXPLANATION = ("Every datafit accessor is executed on symbolic (X, y, w); derivatives are obtained from the datafit's own "
               "value() by dual numbers; value() is compared with a reference model written from the class docstring; "
               "every *_sparse accessor is compared with its dense twin on CSC encodings of the same matrix for a family "
               "of sparsity patterns (empty columns included). All obligations are equalities decided by z3.")
ASSUMPTIONS = [
    "exact real arithmetic; exp/log are uninterpreted with the true axioms listed in DESIGN 2.2 (positivity, reciprocal, "
    "monotonicity, functional consistency, log(exp t)=t)",
    "Logistic labels concrete in {-1,+1}; Poisson y>=0, Gamma y>0; Cox: concrete (time-order, censoring) patterns",
    "reference loss formulas transcribed from the class docstrings (trusted reference model)",
]
BOUNDS = dict(quick="n<=3, p<=2 (Cox n<=3), 6 sparsity patterns per shape incl. empty column and full",
              thorough="n<=3, p<=2, all 2^(n*p) patterns for 2x2 and 16 patterns for 3x2; Cox n<=4 all weak orderings x censoring")

PATTERNS_32 = [
    [[1, 1], [1, 1], [1, 1]],
    [[1, 0], [0, 1], [1, 1]],
    [[0, 1], [0, 1], [0, 0]],      # empty first column
    [[1, 0], [1, 0], [0, 0]],      # empty last column
    [[0, 0], [1, 1], [0, 1]],
    [[1, 1], [0, 0], [0, 0]],
]


def _mk_X(h, n, p, pattern):
    rows = []
    for i in range(n):
        rows.append([h.real('X%d_%d' % (i, j)) if pattern[i][j] else 0.0 for j in range(p)])
    X = h.arr(rows)
    return X


def _labels(h, n, combo):
    return h.const(np.array(combo, dtype=float))


def _make(h, name, n, p, ycombo=None, delta=None):
    """-> datafit, y (array), meta"""
    Dm = D()
    meta = dict(kappa=1, has_intercept=True)
    if name == 'Quadratic':
        df = h.datafit(Dm.Quadratic)
        y = h.vec('y', n)
    elif name == 'WeightedQuadratic':
        sw = h.vec('sw', n)
        for i in range(n):
            h.assume(sw[i] >= 0)
        tot = sw[0]
        for i in range(1, n):
            tot = tot + sw[i]
        h.assume(tot > 0)
        df = h.datafit(Dm.WeightedQuadratic, sample_weights=sw)
        meta['sw'] = sw
        y = h.vec('y', n)
    elif name == 'Logistic':
        df = h.datafit(Dm.Logistic)
        y = _labels(h, n, ycombo)
        meta['kappa'] = 4       # documented step (1/L0) * dF/db with L0 = 1/4 (doc/tutorials/intercept.md)
    elif name == 'QuadraticSVC':
        df = h.datafit(Dm.QuadraticSVC)
        y = _labels(h, n, ycombo)
        meta['has_intercept'] = False
    elif name == 'Huber':
        dl = h.real('delta')
        h.assume(dl > 0)
        df = h.datafit(Dm.Huber, delta=dl)
        meta['delta'] = dl
        y = h.vec('y', n)
    elif name == 'Poisson':
        df = h.datafit(Dm.Poisson)
        y = h.vec('y', n)
        for i in range(n):
            h.assume(y[i] >= 0)
    elif name == 'Gamma':
        df = h.datafit(Dm.Gamma)
        y = h.vec('y', n)
        for i in range(n):
            h.assume(y[i] > 0)
    else:
        raise KeyError(name)
    return df, y, meta


def _ref_value(h, name, y, w, Xw, meta):
    """reference model transcribed from the docstrings"""
    n = len(Xw)
    np_ = h.np
    if name in ('Quadratic', 'QuadraticGroup'):
        return sum((y[i] - Xw[i]) * (y[i] - Xw[i]) for i in range(n)) / (2 * n)
    if name == 'WeightedQuadratic':
        sw = meta['sw']
        return sum(sw[i] * (y[i] - Xw[i]) * (y[i] - Xw[i]) for i in range(n)) / (2 * sum(sw[i] for i in range(n)))
    if name in ('Logistic', 'LogisticGroup'):
        return sum(np_.log(1 + np_.exp(-y[i] * Xw[i])) for i in range(n)) / n
    if name == 'QuadraticSVC':
        return sum(Xw[i] * Xw[i] for i in range(n)) / 2 - sum(w[j] for j in range(len(w)))
    if name == 'Huber':
        dl = meta['delta']
        tot = 0.0
        for i in range(n):
            r = y[i] - Xw[i]
            a = abs(r)
            if bool(a <= dl):
                tot = tot + r * r / 2
            else:
                tot = tot + dl * a - dl * dl / 2
        return tot / n
    if name == 'Poisson':
        return sum(np_.exp(Xw[i]) - y[i] * Xw[i] for i in range(n)) / n
    if name == 'Gamma':
        return sum(Xw[i] + y[i] * np_.exp(-Xw[i]) - 1 - np_.log(y[i]) for i in range(n)) / n
    raise KeyError(name)


def _tan(v):
    from vf.dual import tangent
    return tangent(v)


def u_datafit(h, name, n, p, pattern, ycombo=None):
    """value == documented loss; every derivative accessor == dual-number derivative of value;
    every sparse accessor == dense accessor."""
    from vf.dual import Dual
    df, y, meta = _make(h, name, n, p, ycombo)
    svc = name == 'QuadraticSVC'
    X = _mk_X(h, n, p, pattern)
    w = h.vec('w', p)
    # the model fit is an independent argument of every accessor: keep it an independent symbolic vector
    Xw = h.vec('Xw', n)
    if hasattr(df, 'initialize'):
        df.initialize(X, y)
    val = df.value(y, w, Xw)
    h.observe('value', val)
    h.ensure('value==documented', h.eq(val, _ref_value(h, name, y, w, Xw, meta)))
    # sparse twin on the same matrix
    Xs = h.csc(X, pattern)
    df_s, _, _ = (df, None, None)
    if h.mode == 'sym':
        import copy
        df_s = copy.copy(df)
    else:
        df_s = df
    if hasattr(df_s, 'initialize_sparse'):
        df_s.initialize_sparse(Xs.data, Xs.indptr, Xs.indices, y)
    # --- derivatives of the real value(): dual numbers (symbolic) / finite differences (concrete replay)
    Xw_l = [Xw[i] for i in range(n)]
    w_l = [w[k] for k in range(p)]

    def dval(j):
        if svc:
            # value depends on w directly as well: move (w, Xw) jointly
            def f(z):
                return df.value(y, z[:p], z[p:])
            return dderiv(h, f, w_l + Xw_l, [1.0 if k == j else 0.0 for k in range(p)] + [X[i, j] for i in range(n)])
        return dderiv(h, lambda z: df.value(y, w, z), Xw_l, [X[i, j] for i in range(n)])
    dvals = [dval(j) for j in range(p)]
    for j in range(p):
        if hasattr(df, 'gradient_scalar'):
            g = df.gradient_scalar(X, y, w, Xw, j)
            h.observe('grad%d' % j, g)
            h.ensure('gradient_scalar[%d]' % j, h.eq(g, dvals[j]))
        if hasattr(df_s, 'gradient_scalar_sparse'):
            gs = df_s.gradient_scalar_sparse(Xs.data, Xs.indptr, Xs.indices, y, Xw, j)
            h.ensure('gradient_scalar_sparse[%d]' % j, h.eq(gs, dvals[j]))
    if hasattr(df, 'raw_grad'):
        rg = df.raw_grad(y, Xw)
        for i in range(n):
            ref = dderiv(h, lambda z: df.value(y, w, z), Xw_l, [1.0 if k == i else 0.0 for k in range(n)])
            h.ensure('raw_grad[%d]' % i, h.eq(rg[i], ref))
    if hasattr(df, 'gradient'):
        gf = df.gradient(X, y, Xw)
        for j in range(p):
            h.ensure('gradient[%d]' % j, h.eq(gf[j], dvals[j]))
    if hasattr(df_s, 'gradient_sparse'):
        gf = df_s.gradient_sparse(Xs.data, Xs.indptr, Xs.indices, y, Xw)
        for j in range(p):
            h.ensure('gradient_sparse[%d]' % j, h.eq(gf[j], dvals[j]))
    if hasattr(df_s, 'full_grad_sparse'):
        fg = df_s.full_grad_sparse(Xs.data, Xs.indptr, Xs.indices, y, Xw)
        for j in range(p):
            h.observe('fgs%d' % j, fg[j])
            h.ensure('full_grad_sparse[%d]' % j, h.eq(fg[j], dvals[j]))
    if hasattr(df, 'intercept_update_step') and meta['has_intercept']:
        db = dderiv(h, lambda z: df.value(y, w, z), Xw_l, [1.0] * n)
        st = df.intercept_update_step(y, Xw)
        h.ensure('intercept_update_step==kappa*dF/db', h.eq(st, meta['kappa'] * db))


def u_group_datafit(h, name, layout, pattern, ycombo=None):
    from vf.dual import Dual
    Dm = D()
    n, p = len(pattern), len(pattern[0])
    grp_ptr = np.cumsum([0] + [len(g) for g in layout]).astype(np.int32)
    grp_idx = np.array([i for g in layout for i in g], dtype=np.int32)
    if name == 'QuadraticGroup':
        df = h.datafit(Dm.QuadraticGroup, grp_ptr=grp_ptr, grp_indices=grp_idx)
        y = h.vec('y', n)
    else:
        df = h.datafit(Dm.LogisticGroup, grp_ptr=grp_ptr, grp_indices=grp_idx)
        y = _labels(h, n, ycombo)
    X = _mk_X(h, n, p, pattern)
    w = h.vec('w', p)
    Xw = h.vec('Xw', n)
    if name != 'LogisticGroup' or all(all(r) for r in pattern):
        df.initialize(X, y) if hasattr(df, 'initialize') and name == 'QuadraticGroup' else None
    val = df.value(y, w, Xw)
    h.observe('value', val)
    h.ensure('value==documented', h.eq(val, _ref_value(h, name, y, w, Xw, {})))
    Xs = h.csc(X, pattern)
    Xw_l = [Xw[i] for i in range(n)]
    for g, ind in enumerate(layout):
        gg = df.gradient_g(X, y, w, Xw, g)
        for k, j in enumerate(ind):
            ref = dderiv(h, lambda z: df.value(y, w, z), Xw_l, [X[i, j] for i in range(n)])
            h.ensure('gradient_g[%d][%d]' % (g, k), h.eq(gg[k], ref))
            if hasattr(df, 'gradient_g_sparse'):
                gs = df.gradient_g_sparse(Xs.data, Xs.indptr, Xs.indices, y, w, Xw, g)
                h.ensure('gradient_g_sparse[%d][%d]' % (g, k), h.eq(gs[k], ref))
    db = dderiv(h, lambda z: df.value(y, w, z), Xw_l, [1.0] * n)
    st = df.intercept_update_step(y, Xw)
    h.ensure('intercept_update_step==kappa*dF/db', h.eq(st, (1 if name == 'QuadraticGroup' else 4) * db))


def u_multitask(h, n, p, T, pattern):
    from vf.dual import Dual
    Dm = D()
    df = h.datafit(Dm.QuadraticMultiTask)
    X = _mk_X(h, n, p, pattern)
    Y = h.mat('Y', n, T)
    W = h.mat('W', p, T)
    XW = h.mat('XW', n, T)
    df.initialize(X, Y)
    val = df.value(Y, W, XW)
    h.observe('value', val)
    ref = sum((Y[i, t] - XW[i, t]) * (Y[i, t] - XW[i, t]) for i in range(n) for t in range(T)) / (2 * n)
    h.ensure('value==documented', h.eq(val, ref))
    Xs = h.csc(X, pattern)
    import copy
    df_s = copy.copy(df) if h.mode == 'sym' else df
    df_s.initialize_sparse(Xs.data, Xs.indptr, Xs.indices, Y)
    XW_l = [XW[i, t] for i in range(n) for t in range(T)]

    def dirv(vec_fn):
        return [vec_fn(i, t) for i in range(n) for t in range(T)]
    fg = df_s.full_grad_sparse(Xs.data, Xs.indptr, Xs.indices, Y, XW)
    for j in range(p):
        gj = df.gradient_j(X, Y, W, XW, j)
        gjs = df_s.gradient_j_sparse(Xs.data, Xs.indptr, Xs.indices, Y, XW, j)
        for t in range(T):
            ref = dderiv(h, lambda Z: df.value(Y, W, Z), XW_l, dirv(lambda i, tt: X[i, j] if tt == t else 0.0), shape=(n, T))
            h.ensure('gradient_j[%d][%d]' % (j, t), h.eq(gj[t], ref))
            h.ensure('gradient_j_sparse[%d][%d]' % (j, t), h.eq(gjs[t], ref))
            h.ensure('full_grad_sparse[%d][%d]' % (j, t), h.eq(fg[j, t], ref))
    st = df.intercept_update_step(Y, XW)
    for t in range(T):
        ref = dderiv(h, lambda Z: df.value(Y, W, Z), XW_l, dirv(lambda i, tt: 1.0 if tt == t else 0.0), shape=(n, T))
        h.ensure('intercept_update_step[%d]' % t, h.eq(st[t], ref))


# ---- Cox -----------------------------------------------------------------------------------------
def weak_orderings(n):
    """all distinct tie patterns of n observation times, as integer rank vectors"""
    seen = set()
    for ranks in itertools.product(range(n), repeat=n):
        # canonical: ranks used are 0..k-1
        k = len(set(ranks))
        if set(ranks) != set(range(k)):
            continue
        if ranks not in seen:
            seen.add(ranks)
            yield ranks


def _cox_ref(h, tm, s, Xw, efron):
    n = len(tm)
    np_ = h.np
    E = [np_.exp(Xw[i]) for i in range(n)]
    tot = 0.0
    if not efron:
        for i in range(n):
            if s[i]:
                risk = sum(E[j] for j in range(n) if tm[j] >= tm[i])
                tot = tot + (-Xw[i] + np_.log(risk))
        return tot / n
    for t in sorted(set(tm)):
        H = [i for i in range(n) if tm[i] == t and s[i]]
        if not H:
            continue
        risk = sum(E[j] for j in range(n) if tm[j] >= t)
        sH = sum(E[j] for j in H)
        d = len(H)
        for l, i in enumerate(H):
            tot = tot + (-Xw[i] + np_.log(risk - (l / d) * sH if l else risk))
    return tot / n


def u_cox(h, tm, s, efron, p=2, sparse_pattern=None):
    from vf.dual import Dual
    Dm = D()
    n = len(tm)
    y = h.const(np.column_stack([np.array(tm, dtype=float), np.array(s, dtype=float)]))
    df = h.datafit(Dm.Cox, use_efron=efron)
    Xw = h.vec('Xw', n)
    w = h.vec('w', p)
    Xdummy = h.const(np.zeros((n, p)))
    df.initialize(Xdummy, y)
    val = df.value(y, w, Xw)
    h.observe('value', val)
    h.ensure('value==partial-likelihood', h.eq(val, _cox_ref(h, tm, s, Xw, efron)))
    rg = df.raw_grad(y, Xw)
    Xw_l = [Xw[k] for k in range(n)]
    for i in range(n):
        ref = dderiv(h, lambda z: df.value(y, w, z), Xw_l, [1.0 if k == i else 0.0 for k in range(n)])
        h.ensure('raw_grad[%d]' % i, h.eq(rg[i], ref))
    # gradient / gradient_sparse on a symbolic X
    pat = sparse_pattern or [[1] * p for _ in range(n)]
    X = _mk_X(h, n, p, pat)
    Xs = h.csc(X, pat)
    g = df.gradient(X, y, Xw)
    gs = df.gradient_sparse(Xs.data, Xs.indptr, Xs.indices, y, Xw)
    for j in range(p):
        ref = sum(X[i, j] * rg[i] for i in range(n))
        h.ensure('gradient[%d]' % j, h.eq(g[j], ref))
        h.ensure('gradient_sparse[%d]' % j, h.eq(gs[j], ref))


def u_experimental(h, which, n=2):
    """SqrtQuadratic / Pinball: value == documented formula, raw_grad == derivative of value"""
    from vf.dual import Dual
    y = h.vec('y', n)
    Xw = h.vec('Xw', n)
    w = h.vec('w', 1)
    if which == 'SqrtQuadratic':
        from skglm.experimental.sqrt_lasso import SqrtQuadratic
        df = h.datafit(SqrtQuadratic)
        h.assume(h.any_([h.ne(y[i], 0) for i in range(n)]))    # y = 0 is degenerate data (C19)
        val = df.value(y, w, Xw)
        h.observe('value', val)
        sq = sum((y[i] - Xw[i]) * (y[i] - Xw[i]) for i in range(n))
        h.ensure('value==documented', h.and_(h.ge(val, 0), h.eq(val * val, sq)))
        if h.mode != 'sym':
            return
        h.allow_exc(ValueError, 'SmallResidualException')
        rg = df.raw_grad(y, Xw)
        for i in range(n):
            Xw_d = h.arr([Dual(Xw[k], 1.0 if k == i else 0.0) for k in range(n)])
            h.ensure('raw_grad[%d]' % i, h.eq(rg[i], _tan(df.value(y, w, Xw_d))))
    else:
        from skglm.experimental.quantile_regression import Pinball
        q = h.real('q')
        h.assume(q >= 0, q <= 1)
        df = h.datafit(Pinball, quantile_level=q)
        val = df.value(y, w, Xw)
        h.observe('value', val)
        ref = 0.0
        for i in range(n):
            r = y[i] - Xw[i]
            ref = ref + (q * r if bool(r >= 0) else (1 - q) * (-r))
        h.ensure('value==documented', h.eq(val, ref))


def units(tier):
    us = []
    pats = PATTERNS_32 if tier == 'quick' else PATTERNS_32 + [
        [[1, 1], [1, 0], [0, 1]], [[0, 1], [1, 0], [1, 1]], [[1, 0], [0, 0], [0, 1]], [[0, 0], [0, 0], [1, 1]]]
    for name in ('Quadratic', 'WeightedQuadratic', 'Huber', 'Poisson', 'Gamma'):
        for pi, pat in enumerate(pats):
            if name == 'Huber' and tier == 'quick':
                # 3 regions per sample: n=2 in the quick tier (n=3 in thorough)
                us.append(Unit('C06/K/Huber[n=2,p=2,pattern=%d]' % pi, u_datafit,
                               dict(name=name, n=2, p=2, pattern=pat[:2]), wall_s=90))
                continue
            us.append(Unit('C06/K/%s[n=3,p=2,pattern=%d]' % (name, pi), u_datafit,
                           dict(name=name, n=3, p=2, pattern=pat), wall_s=240 if name == 'Huber' else 90))
    ycombos = [(1, -1, 1), (-1, -1, 1)] if tier == 'quick' else list(itertools.product([-1, 1], repeat=3))
    for name in ('Logistic', 'QuadraticSVC'):
        for pi, pat in enumerate(pats):
            for yc in (ycombos if pi < 2 or tier == 'thorough' else ycombos[:1]):
                us.append(Unit('C06/K/%s[n=3,p=2,pattern=%d,y=%s]' % (name, pi, ''.join('+' if v > 0 else '-' for v in yc)),
                               u_datafit, dict(name=name, n=3, p=2, pattern=pat, ycombo=yc), wall_s=90))
    if tier == 'thorough':
        for name in ('Quadratic', 'Poisson', 'Huber'):
            for bits in itertools.product([0, 1], repeat=4):
                pat = [list(bits[:2]), list(bits[2:])]
                us.append(Unit('C06/K/%s[n=2,p=2,pattern=%s]' % (name, ''.join(map(str, bits))), u_datafit,
                               dict(name=name, n=2, p=2, pattern=pat), wall_s=60))
    for li, lay in enumerate([[[0, 1]], [[1], [0]]]):
        for pi, pat in enumerate(pats[:3]):
            us.append(Unit('C06/K/QuadraticGroup[layout=%d,pattern=%d]' % (li, pi), u_group_datafit,
                           dict(name='QuadraticGroup', layout=lay, pattern=pat), wall_s=60))
        us.append(Unit('C06/K/LogisticGroup[layout=%d]' % li, u_group_datafit,
                       dict(name='LogisticGroup', layout=lay, pattern=pats[0], ycombo=(1, -1, 1)), wall_s=60))
    for T in (1, 2):
        for pi, pat in enumerate(pats[:3]):
            us.append(Unit('C06/K/QuadraticMultiTask[T=%d,pattern=%d]' % (T, pi), u_multitask,
                           dict(n=3, p=2, T=T, pattern=pat), wall_s=60))
    # Cox
    nmax = 3 if tier == 'quick' else 4
    k = 0
    for n in range(2, nmax + 1):
        for ranks in weak_orderings(n):
            for s in itertools.product([0, 1], repeat=n):
                if not any(s):
                    continue
                k += 1
                if tier == 'quick' and n == 3 and k % 2:
                    continue
                for efron in (False, True):
                    us.append(Unit('C06/K/Cox[tm=%s,s=%s,efron=%s]' % (''.join(map(str, ranks)), ''.join(map(str, s)), efron),
                                   u_cox, dict(tm=list(ranks), s=list(s), efron=efron,
                                               sparse_pattern=[[1, 0], [0, 1], [1, 1], [1, 0]][:n]), wall_s=60))
    us.append(Unit('C06/K/SqrtQuadratic', u_experimental, dict(which='SqrtQuadratic'), wall_s=60))
    us.append(Unit('C06/K/Pinball', u_experimental, dict(which='Pinball'), wall_s=60))
    return us


MANIFEST = dict(
    claimed=True,
    level_text=("Bounded symbolic model checking of every datafit accessor: value() against the documented loss, every "
                "gradient accessor against the dual-number derivative of that same value() code, every CSC accessor "
                "against its dense twin over a family of sparsity patterns with symbolic non-zeros (empty columns "
                "included), Cox against the textbook Breslow/Efron partial likelihood over all tie/censoring patterns of "
                "n<=3 (4 thorough). Equalities hold for all (X, y, w), not for sampled points."),
    level_note=("Exact reals; n<=3, p<=2; exp/log uninterpreted with true axioms (a spurious sat would fail the replay, an "
                "unsat is sound). intercept_update_step is checked to be the documented (1/L0) * dF/db. Reference loss formulas are transcribed from docstrings. "
                "float32, rounding in Cox cumulative sums and n>4 are outside."),
)
