"""C13 -- every composition is either refused with an explanation or solved (family D, full matrix)."""
import itertools
import re
import zlib

import numpy as np

from checks.common import Unit, X_of
from vf.sym import _isinf

EXPLANATION = ("The full matrix solver-configuration x datafit x penalty x {dense, CSC} is enumerated (the enumeration of "
               "programs is inherent to the property). Per cell the real solve() (validation included) runs on a tiny problem "
               "with symbolic targets under minimal budgets: on EVERY feasible path either an AttributeError / ValueError that "
               "names what the combination lacks is raised, or the run returns finite values without any other exception "
               "(TypeError, IndexError, broadcasting ValueError, ZeroDivisionError, UnboundLocalError...). A refusal path takes "
               "no data-dependent branch, hence holds for all data.")
ASSUMPTIONS = ["exact reals; X = corr32 (3x2), hyper-parameters from a catalogue, targets symbolic; budgets (1,1)",
               "scipy.optimize.minimize (LBFGS) replaced by a zero-iteration contract stub; random power-method start fixed",
               "numba typing failures and interpreter crashes are facts about compiled code and are outside (Python semantics only)"]
BOUNDS = dict(quick="validation of ALL cells; the solve of a deterministic 1/12 sample of the accepted cells (1/48 for irrational-step "
                    "compositions) plus one cell per (solver configuration, datafit, storage) stratum, <= 40 paths / 15 s per cell", thorough="validation of all cells; solve of a 1/3 sample, <= 300 paths / 45 s per cell")

EXPLAINED = re.compile(r"Missing|must implement|is not compatible|not block-separable|must be compatible|not yet supported|"
                       r"supports only|should only take positive|has no attribute|Unsupported|should be of size|should be n_features")

SOLVERS = []
for strat, fi in itertools.product(('subdiff', 'fixpoint'), (False, True)):
    SOLVERS.append(('AndersonCD', dict(ws_strategy=strat, fit_intercept=fi)))
    SOLVERS.append(('ProxNewton', dict(ws_strategy=strat, fit_intercept=fi)))
    SOLVERS.append(('GroupBCD', dict(ws_strategy=strat, fit_intercept=fi)))
    SOLVERS.append(('MultiTaskBCD', dict(ws_strategy=strat, fit_intercept=fi)))
for g in (False, True):
    SOLVERS.append(('GramCD', dict(greedy_cd=g)))
    SOLVERS.append(('GroupProxNewton', dict(fit_intercept=g)))
    SOLVERS.append(('FISTA', dict(opt_strategy='fixpoint' if g else 'subdiff')))
SOLVERS.append(('LBFGS', dict()))
SOLVERS.append(('PDCD_WS', dict()))

DATAFITS = ['Quadratic', 'WeightedQuadratic', 'Logistic', 'QuadraticSVC', 'Huber', 'Poisson', 'Gamma', 'Cox',
            'QuadraticGroup', 'LogisticGroup', 'QuadraticMultiTask', 'SqrtQuadratic', 'Pinball', 'None']
PENALTIES = ['L1', 'L1_plus_L2', 'WeightedL1', 'MCPenalty', 'WeightedMCPenalty', 'SCAD', 'IndicatorBox', 'L0_5', 'L2_3',
             'LogSumPenalty', 'PositiveConstraint', 'L2', 'L2_1', 'L2_05', 'BlockMCPenalty', 'BlockSCAD',
             'WeightedGroupL2', 'WeightedL1GroupL2', 'SLOPE']


def mk_solver(name, kw):
    import skglm.solvers as S
    from skglm.experimental.pdcd_ws import PDCD_WS
    tol = 1e-3
    if name == 'AndersonCD':
        return S.AndersonCD(max_iter=1, max_epochs=1, p0=2, tol=tol, **kw)
    if name == 'ProxNewton':
        return S.ProxNewton(max_iter=1, max_pn_iter=1, p0=2, tol=tol, **kw)
    if name == 'GroupBCD':
        return S.GroupBCD(max_iter=1, max_epochs=1, tol=tol, **kw)               # default p0 (10 > number of groups)
    if name == 'MultiTaskBCD':
        return S.MultiTaskBCD(max_iter=1, max_epochs=1, p0=2, tol=tol, use_acc=False, **kw)
    if name == 'GramCD':
        return S.GramCD(max_iter=1, tol=tol, **kw)
    if name == 'GroupProxNewton':
        return S.GroupProxNewton(max_iter=1, max_pn_iter=1, tol=tol, **kw)      # default p0 (10 > number of groups)
    if name == 'FISTA':
        return S.FISTA(max_iter=1, tol=tol, **kw)
    if name == 'LBFGS':
        return S.LBFGS(max_iter=1, tol=tol)
    if name == 'PDCD_WS':
        return PDCD_WS(max_iter=1, max_epochs=1, p0=2, tol=tol)
    raise KeyError(name)


def mk_datafit(h, name, n, sym_y=True):
    import skglm.datafits as Dm
    from skglm.experimental.sqrt_lasso import SqrtQuadratic
    from skglm.experimental.quantile_regression import Pinball
    gp, gi = np.array([0, 1, 2], dtype=np.int32), np.array([1, 0], dtype=np.int32)
    labels = h.const(np.array([1.0, -1.0, 1.0][:n]))
    if not sym_y:
        # targets from a catalogue: the cell is executed once (exact arithmetic); used for the cells not sampled for a
        # symbolic run in the quick tier
        class _HC:
            pass
        hc = _HC()
        hc.vec = lambda nm, k: h.const(np.array([1.5, 0.5, 2.0][:k]))
        hc.mat = lambda nm, a, b: h.const(np.array([[1.5, -1.0], [0.5, 2.0], [2.0, 0.25]])[:a, :b])
        hc.const, hc.datafit, hc.constant, hc.assume = h.const, h.datafit, h.constant, (lambda *a: None)
        return mk_datafit(hc, name, n, sym_y=True)
    if name == 'None':
        return None, h.vec('y', n)
    if name == 'Quadratic':
        return h.datafit(Dm.Quadratic), h.vec('y', n)
    if name == 'WeightedQuadratic':
        return h.datafit(Dm.WeightedQuadratic, sample_weights=h.const(np.array([1.0, 2.0, 0.5][:n]))), h.vec('y', n)
    if name == 'Logistic':
        return h.datafit(Dm.Logistic), labels
    if name == 'QuadraticSVC':
        return h.datafit(Dm.QuadraticSVC), labels
    if name == 'Huber':
        return h.datafit(Dm.Huber, delta=h.constant(1.0)), h.vec('y', n)
    if name == 'Poisson':
        y = h.vec('y', n)
        for i in range(n):
            h.assume(y[i] >= 0)
        return h.datafit(Dm.Poisson), y
    if name == 'Gamma':
        y = h.vec('y', n)
        for i in range(n):
            h.assume(y[i] > 0)
        return h.datafit(Dm.Gamma), y
    if name == 'Cox':
        return h.datafit(Dm.Cox, use_efron=False), h.const(np.array([[1.0, 1.0], [2.0, 0.0], [3.0, 1.0]][:n]))
    if name == 'QuadraticGroup':
        return h.datafit(Dm.QuadraticGroup, grp_ptr=gp, grp_indices=gi), h.vec('y', n)
    if name == 'LogisticGroup':
        return h.datafit(Dm.LogisticGroup, grp_ptr=gp, grp_indices=gi), labels
    if name == 'QuadraticMultiTask':
        return h.datafit(Dm.QuadraticMultiTask), h.mat('Y', n, 2)
    if name == 'SqrtQuadratic':
        return h.datafit(SqrtQuadratic), h.vec('y', n)
    if name == 'Pinball':
        return h.datafit(Pinball, quantile_level=h.constant(0.5)), h.vec('y', n)
    raise KeyError(name)


def mk_penalty(h, name, p):
    import skglm.penalties as Pm
    al = h.constant(0.25)
    gp, gi = np.array([0, 1, 2], dtype=np.int32), np.array([1, 0], dtype=np.int32)
    ones = h.const(np.array([1.0, 0.5, 2.0][:p]))          # non-uniform weights (a uniform vector hides index slips)
    kw = dict(L1=dict(alpha=al), L1_plus_L2=dict(alpha=al, l1_ratio=h.constant(0.5)), WeightedL1=dict(alpha=al, weights=ones),
              MCPenalty=dict(alpha=al, gamma=h.constant(3.0)), WeightedMCPenalty=dict(alpha=al, gamma=h.constant(3.0), weights=ones),
              SCAD=dict(alpha=al, gamma=h.constant(3.7)), IndicatorBox=dict(alpha=al), L0_5=dict(alpha=al), L2_3=dict(alpha=al),
              LogSumPenalty=dict(alpha=al, eps=h.constant(1.0)), PositiveConstraint=dict(), L2=dict(alpha=al), L2_1=dict(alpha=al),
              L2_05=dict(alpha=al), BlockMCPenalty=dict(alpha=al, gamma=h.constant(3.0)), BlockSCAD=dict(alpha=al, gamma=h.constant(3.7)),
              WeightedGroupL2=dict(alpha=al, weights=ones, grp_ptr=gp, grp_indices=gi),
              WeightedL1GroupL2=dict(alpha=al, weights_groups=ones, weights_features=ones, grp_ptr=gp, grp_indices=gi),
              SLOPE=dict(alphas=h.const(np.array([0.25, 0.125][:p]))))[name]
    return h.penalty(getattr(Pm, name), **kw)


TWIN_SOLVERS = ('AndersonCD', 'ProxNewton', 'MultiTaskBCD', 'GramCD')


def u_cell(h, solver, skw, datafit, penalty, sparse, sym_y=True, run_solve=True, _twin=False):
    import skglm.solvers.lbfgs as lb
    from vf import shim
    Xc = X_of('corr32')
    n, p = Xc.shape
    if solver == 'AndersonCD' and datafit == 'QuadraticGroup':
        h.expect_exc('F24', IndexError)
    df, y = mk_datafit(h, datafit, n, sym_y=sym_y or h.mode != 'sym')
    pen = mk_penalty(h, penalty, p)
    sol = mk_solver(solver, skw)
    Xd = h.const(Xc)
    X = h.csc(Xd) if sparse else Xd
    h.observe('probe', 1.0)
    # environment stubs (symbolic mode)
    saved = []
    if h.mode == 'sym':
        class _Res:
            pass

        def fake_minimize(fun, jac, x0, method=None, options=None, callback=None, **kw):
            r = _Res()
            r.x, r.jac, r.success = x0, jac(x0), True
            fun(x0)
            return r
        saved.append((lb.scipy.optimize, 'minimize', lb.scipy.optimize.minimize))
        lb.scipy.optimize.minimize = fake_minimize
        saved.append((shim.rnd, 'randn', shim.rnd.randn))
        shim.rnd.randn = lambda *shape: shim._obj(np.arange(1, int(np.prod(shape)) + 1, dtype=float).reshape(shape))
        from checks import driver as DR
        DR._patch_pn(h, 2, 2)
    try:
        try:
            # the documented examples initialise the datafit on the data before solving
            if df is not None:
                if sparse and hasattr(df, 'initialize_sparse'):
                    df.initialize_sparse(X.data, X.indptr, X.indices, y)
                elif not sparse and hasattr(df, 'initialize'):
                    df.initialize(X, y)
            if not run_solve:
                # validation only (this cell's run is part of the thorough tier / of C01, C19, C20)
                sol._validate(X, y, df, pen)
                h.ensure('accepted-by-validation', True)
                return
            out = sol.solve(X, y, df, pen)
        except (AttributeError, ValueError) as e:
            if _twin:
                raise
            msg = str(e)
            if isinstance(e, ValueError) and ('broadcast' in msg or 'shape' in msg or 'dimension' in msg):
                raise
            if isinstance(e, ValueError) and 'SmallResidualException' in msg and type(df).__name__ == 'SqrtQuadratic':
                # documented data-dependent refusal of the square-root loss at a (near-)perfect fit, not a composition refusal
                h.ensure('documented-small-residual-refusal', True)
                return
            h.ensure('refusal-is-explained', bool(EXPLAINED.search(msg)), info=msg[:160])
            return
    finally:
        for mod, name, val in saved:
            setattr(mod, name, val)
        if h.mode == 'sym':
            from checks import driver as DR
            DR._patch_pn(h, None, None)
    w, obj, sc = out
    for v in np.asarray(w, dtype=object).flat:
        h.ensure('finite-coef', h.is_finite(v))
    for v in np.asarray(obj, dtype=object).flat:
        h.ensure('finite-history', h.is_finite(v))
    if sparse and solver in TWIN_SOLVERS and not _twin:
        # "meets the certificate" for the CSC cell, by reduction to its dense sibling (whose certificate is C01's subject):
        # the same composition on the dense copy of X must return the same coefficients and the same stopping value
        # (solvers whose CSC step sizes come from the randomised power method are excluded)
        try:
            w2, obj2, sc2 = u_cell(h, solver, skw, datafit, penalty, False, sym_y=sym_y, run_solve=True, _twin=True)
        except (AttributeError, ValueError):
            return                       # the dense sibling is refused: nothing to compare with
        a, b = np.asarray(w, dtype=object).ravel(), np.asarray(w2, dtype=object).ravel()
        h.ensure('csc-cell-returns-what-the-dense-cell-returns[shape]', len(a) == len(b))
        for k in range(min(len(a), len(b))):
            if _isinf(a[k]) or _isinf(b[k]):
                continue
            h.ensure('csc-cell-returns-what-the-dense-cell-returns[coef %d]' % k, h.eq(a[k], b[k]))
        if not (_isinf(sc) or _isinf(sc2)):
            h.ensure('csc-cell-returns-what-the-dense-cell-returns[stop_crit]', h.eq(sc, sc2))
    return w, obj, sc


def dh(t):
    return zlib.crc32(repr(t).encode())


def all_cells():
    for (solver, skw), df, pen, sparse in itertools.product(SOLVERS, DATAFITS, PENALTIES, (False, True)):
        if (df == 'None') != (solver == 'GramCD'):
            # datafit=None is the documented way to call GramCD; for other solvers it is not a composition of components
            if df == 'None':
                continue
        yield solver, skw, df, pen, sparse


FAMILY_PENALTIES = dict(GroupBCD=('WeightedGroupL2', 'WeightedL1GroupL2'), GroupProxNewton=('WeightedGroupL2', 'WeightedL1GroupL2'),
                        MultiTaskBCD=('L2_1', 'L2_05', 'BlockMCPenalty', 'BlockSCAD'), LBFGS=('L2',))
SEPARABLE = ('L1', 'L1_plus_L2', 'WeightedL1', 'MCPenalty', 'WeightedMCPenalty', 'IndicatorBox', 'PositiveConstraint')


def _cid(solver, skw, df, pen, sparse):
    return '%s[%s],%s,%s,%s' % (solver, ','.join('%s=%s' % kv for kv in sorted(skw.items())), df, pen, 'csc' if sparse else 'dense')


def units(tier):
    us = []
    # stratified part of the sample: in every (solver configuration, datafit, storage) stratum the smallest-hash cell among
    # the penalties of the solver's own family is always run
    strata = {}
    for solver, skw, df, pen, sparse in all_cells():
        if pen not in FAMILY_PENALTIES.get(solver, SEPARABLE):
            continue
        cid = _cid(solver, skw, df, pen, sparse)
        key = (solver, tuple(sorted(skw.items())), df, sparse)
        if key not in strata or dh(cid) < dh(strata[key]):
            strata[key] = cid
    always = set(strata.values())
    for solver, skw, df, pen, sparse in all_cells():
        cid = _cid(solver, skw, df, pen, sparse)
        run_solve = (dh(cid) % 12 == 0) if tier == 'quick' else (dh(cid) % 12 in (0, 1, 2, 3))
        if tier == 'quick' and (solver in ('FISTA', 'PDCD_WS') or pen in ('SCAD', 'LogSumPenalty', 'L0_5', 'L2_3', 'L2_05')):
            run_solve = run_solve and (dh(cid) % 48 == 0)       # irrational step sizes / roots: few symbolic runs in quick
        run_solve = run_solve or cid in always
        if df == 'LogisticGroup' and solver not in ('GroupBCD', 'GroupProxNewton'):
            # duck-typed acceptance of a group datafit by a non-group solver with a transcendental loss: the symbolic runs do not
            # terminate within the cell budget and produced counterexamples no concrete run reproduces -- validated only
            run_solve = False
        us.append(Unit('C13/D/cell[%s]' % cid, u_cell, dict(solver=solver, skw=skw, datafit=df, penalty=pen, sparse=sparse,
                                                            sym_y=True, run_solve=run_solve),
                       wall_s=15 if tier == 'quick' else 45, max_paths=40 if tier == 'quick' else 300, timeout_ms=3000,
                       patched=True))
    # cells on a design with a numerically empty CSC column whose zeros are stored (C19's units re-used): still refused or solved
    from checks import c19, steps as STP
    from checks.common import Unit as _U
    us.append(_U('C13/D/degenerate-cell[ProxNewton,Quadratic,L1,csc with stored zeros]', c19.u_degenerate,
                 dict(cfg=dict(solver='ProxNewton', datafit='Quadratic', penalty='L1', X='zero_first32', max_iter=1, max_pn_iter=1, p0=2,
                               fit_intercept=False, ws_strategy='subdiff', warm=False, sparse=True, explicit_zeros=True)),
                 wall_s=90, timeout_ms=8000, patched=True))
    us.append(_U('C13/D/degenerate-cell[MultiTaskBCD,QuadraticMultiTask,L2_1,csc with stored zeros]', STP.u_multitask_run,
                 dict(X='zero_first32', fit_intercept=False, sparse=True, warm=False, budget=(2, 1), want=('certificate',),
                      explicit_zeros=True, p0=2), wall_s=90, timeout_ms=8000))
    return us


MANIFEST = dict(
    claimed=True,
    level_text=("Bounded symbolic model checking over the exhaustively enumerated composition matrix (23 solver configurations "
                "x 13 datafits x 19 penalties x {dense, CSC}, ~12k cells): for EVERY cell the real BaseSolver validation runs "
                "on the initialised datafit; a refusal must be an AttributeError / ValueError whose message names the missing "
                "method or structure (a refusal path takes no data-dependent branch, so it holds for all data). For a "
                "deterministic sample of the accepted cells (a hashed 1/12 plus one cell per (solver configuration, datafit, "
                "storage) stratum) the real solve() is executed under minimal budgets with symbolic targets: on every explored "
                "feasible path it returns finite coefficients / history and raises nothing else (IndexError, TypeError, "
                "broadcasting ValueError, ZeroDivisionError, UnboundLocalError ... are violations), and a CSC cell returns, "
                "term for term, what its dense sibling returns (the 'meets the certificate' half by reduction to the dense "
                "cell, whose certificate is C01's subject)."),
    level_note=("Python semantics of the njit sources only: numba TYPING failures, segfaults and interpreter exits are facts about "
                "compiled code and cannot be decided by this technique (they show up only if a counterexample is replayed on the "
                "jitted build). Accepted cells outside the sample are validated but not run here (their runs are in C01/C19/C20 "
                "for the supported compositions). X = corr32, catalogue hyper-parameters; path budget per cell: exhausted budgets "
                "are reported as INCONCLUSIVE. The documented data-dependent SmallResidualException of SqrtQuadratic is a legal "
                "outcome. Known finding F24 (AndersonCD accepts QuadraticGroup and over-reads the per-group Lipschitz array). "
                "Fixed through this check: F30."),
)
