"""C09 -- step-size constants are valid curvature bounds (family K)."""
import itertools
import numpy as np

from checks.common import Unit, D
from checks.c06 import _make, _mk_X, PATTERNS_32, _tan

EXPLANATION = ("Second directional derivatives are obtained by running the gradient accessors (tied to value() by C06) "
               "on dual numbers; z3 decides L_j >= curvature for all (X, y, w), equality for quadratic losses, "
               "sparse == dense constants, raw_hessian == d(raw_grad)/d(Xw) or diag bound dominance (Cox, sqrt loss).")
ASSUMPTIONS = [
    "exact reals; exp uninterpreted with true axioms; spectral norms exact for <= 2 columns (closed form)",
    "sparse power method: random start replaced by an arbitrary non-zero vector, iterations bounded (<= 2); only "
    "'never above the true value' is claimed, accuracy after 100 iterations is outside",
]
BOUNDS = dict(quick="n<=3, p<=2, groups of <=2 columns, Cox n<=3 (Breslow and Efron), power method 1 iteration",
              thorough="same plus all tie patterns for Cox n<=3 and power method 2 iterations on catalogue matrices")


def psd_dominates(h, lam, cols, scale=1.0, wts=None):
    """lam*I - scale * M'M is positive semidefinite (M = the <=2 given columns), by the 1x1 / 2x2 criterion
    (all principal minors non-negative) -- a polynomial condition, no quantifier over directions."""
    n = len(cols[0])
    ww = wts if wts is not None else [1.0] * n
    a = scale * sum(ww[i] * cols[0][i] * cols[0][i] for i in range(n))
    if len(cols) == 1:
        return h.ge(lam, a)
    c = scale * sum(ww[i] * cols[1][i] * cols[1][i] for i in range(n))
    b = scale * sum(ww[i] * cols[0][i] * cols[1][i] for i in range(n))
    return h.and_(h.and_(h.ge(lam, a), h.ge(lam, c)), h.ge((lam - a) * (lam - c), b * b))


def u_lipschitz(h, name, n, p, pattern, ycombo=None):
    from vf.dual import Dual
    df, y, meta = _make(h, name, n, p, ycombo)
    X = _mk_X(h, n, p, pattern)
    Xw = h.vec('Xw', n)
    w = h.vec('w', p)
    if hasattr(df, 'initialize'):
        df.initialize(X, y)
    L = df.get_lipschitz(X, y)
    Xs = h.csc(X, pattern)
    Ls = df.get_lipschitz_sparse(Xs.data, Xs.indptr, Xs.indices, y)
    for j in range(p):
        h.observe('L%d' % j, L[j])
        h.ensure('sparse==dense[%d]' % j, h.eq(L[j], Ls[j]))
        h.ensure('nonneg[%d]' % j, h.ge(L[j], 0))
    if h.mode != 'sym':
        return
    exact = name in ('Quadratic', 'WeightedQuadratic', 'QuadraticSVC')
    for j in range(p):
        Xw_d = h.arr([Dual(Xw[i], X[i, j]) for i in range(n)])
        curv = _tan(df.gradient_scalar(X, y, w, Xw_d, j))
        if exact:
            h.ensure('L==curvature[%d]' % j, h.eq(L[j], curv))
        else:
            h.ensure('L>=curvature[%d]' % j, h.ge(L[j], curv))


def u_raw_hessian(h, name, n, ycombo=None):
    from vf.dual import Dual
    df, y, meta = _make(h, name, n, 1, ycombo)
    Xw = h.vec('Xw', n)
    H = df.raw_hessian(y, Xw)
    for i in range(n):
        h.observe('H%d' % i, H[i])
    if h.mode != 'sym':
        return
    for i in range(n):
        Xw_d = h.arr([Dual(Xw[k], 1.0 if k == i else 0.0) for k in range(n)])
        rg = df.raw_grad(y, Xw_d)
        for k in range(n):
            if k == i:
                h.ensure('raw_hessian[%d]' % i, h.eq(H[i], _tan(rg[k])))
            else:
                h.ensure('separable[%d,%d]' % (i, k), h.eq(_tan(rg[k]), 0))


def u_hessian_bound(h, which, tm=None, s=None, efron=False, n=2):
    """diag(raw_hessian) - Hessian is positive semidefinite: v'(D-H)v >= 0 for every v"""
    from vf.dual import Dual
    Dm = D()
    if which == 'Cox':
        n = len(tm)
        y = h.const(np.column_stack([np.array(tm, dtype=float), np.array(s, dtype=float)]))
        df = h.datafit(Dm.Cox, use_efron=efron)
        df.initialize(h.const(np.zeros((n, 1))), y)
    else:
        from skglm.experimental.sqrt_lasso import SqrtQuadratic
        df = h.datafit(SqrtQuadratic)
        y = h.vec('y', n)
        h.allow_exc(ValueError, 'SmallResidualException')
    Xw = h.vec('Xw', n)
    if which != 'Cox':
        h.assume(h.any_([h.ne(y[i], Xw[i]) for i in range(n)]))
    Dg = df.raw_hessian(y, Xw)
    for i in range(n):
        h.observe('D%d' % i, Dg[i])
    if h.mode != 'sym':
        return
    v = h.vec('v', n)
    Xw_d = h.arr([Dual(Xw[i], v[i]) for i in range(n)])
    rg = df.raw_grad(y, Xw_d)
    vHv = 0.0
    vDv = 0.0
    for i in range(n):
        vHv = vHv + v[i] * _tan(rg[i])
        vDv = vDv + Dg[i] * v[i] * v[i]
    h.ensure('diag-bound-dominates-hessian', h.ge(vDv, vHv))


def u_group_lipschitz(h, name, n, layout, pattern, ycombo=None):
    Dm = D()
    p = len(pattern[0])
    grp_ptr = np.cumsum([0] + [len(g) for g in layout]).astype(np.int32)
    grp_idx = np.array([i for g in layout for i in g], dtype=np.int32)
    X = _mk_X(h, n, p, pattern)
    if name == 'QuadraticGroup':
        df = h.datafit(Dm.QuadraticGroup, grp_ptr=grp_ptr, grp_indices=grp_idx)
        y = h.vec('y', n)
        scale = 1.0
    else:
        df = h.datafit(Dm.LogisticGroup, grp_ptr=grp_ptr, grp_indices=grp_idx)
        y = h.const(np.array(ycombo, dtype=float))
        scale = 0.25
    L = df.get_lipschitz(X, y)
    h.ensure('one-constant-per-group', len(L) == len(layout))
    for g in range(min(len(L), len(layout))):
        h.observe('L%d' % g, L[g])
    for g, ind in enumerate(layout):
        if g >= len(L):
            break
        cols = [[X[i, j] for i in range(n)] for j in ind]
        h.ensure('L_g>=block-curvature[%d]' % g, psd_dominates(h, L[g], cols, scale=scale / n))
    if name == 'LogisticGroup':
        df.initialize(X, y)
        for g in range(len(layout)):
            h.ensure('attribute-lipschitz==get_lipschitz[%d]' % g, h.eq(df.lipschitz[g], L[g]))


def u_global_lipschitz(h, name, n, p, ycombo=None):
    df, y, meta = _make(h, name, n, p, ycombo)
    X = _mk_X(h, n, p, [[1] * p for _ in range(n)])
    L = df.get_global_lipschitz(X, y)
    h.observe('L', L)
    cols = [[X[i, j] for i in range(n)] for j in range(p)]
    if name == 'WeightedQuadratic':
        sw = meta['sw']
        tot = sum(sw[i] for i in range(n))
        h.ensure('global-L>=curvature', psd_dominates(h, L * tot, cols, wts=[sw[i] for i in range(n)]))
        return
    scale = {'Quadratic': 1.0 / n, 'Huber': 1.0 / n, 'Logistic': 1.0 / (4 * n), 'QuadraticSVC': 1.0}[name]
    h.ensure('global-L>=curvature', psd_dominates(h, L, cols, scale=scale))


def u_power_method(h, Xname, iters):
    """sparse spectral_norm with bounded iterations never exceeds the true spectral norm"""
    from skglm.utils.sparse_ops import spectral_norm
    from checks.common import X_of
    from vf import shim
    Xc = X_of(Xname)
    n, p = Xc.shape
    Xs = h.csc(h.const(Xc))
    if h.mode == 'sym':
        val = spectral_norm(Xs.data, Xs.indptr, Xs.indices, n, max_iter=iters)
        true = float(np.linalg.norm(Xc, ord=2))
        h.ensure('never-above-true-value', h.le(val * val, true * true * (1 + 1e-12)))
    else:
        val = spectral_norm(Xs.data, Xs.indptr, Xs.indices, n)
        true = float(np.linalg.norm(Xc, ord=2))
        h.ensure('never-above-true-value', val <= true * (1 + 1e-9))


def u_sparse_slice(h, pattern, cols):
    """sparse_columns_slice (used for the per-group sparse Lipschitz constants) extracts exactly X[:, cols]"""
    from skglm.utils.sparse_ops import sparse_columns_slice
    n, p = len(pattern), len(pattern[0])
    X = _mk_X(h, n, p, pattern)
    Xs = h.csc(X, pattern)
    cols_a = np.array(cols, dtype=np.int32)
    d, ip, ind = sparse_columns_slice(cols_a, Xs.data, Xs.indptr, Xs.indices)
    h.ensure('indptr-length', len(ip) == len(cols) + 1)
    h.observe('nnz', float(len(d)))
    ok = h.true()
    for k, j in enumerate(cols):
        col = [0.0] * n
        for t in range(int(ip[k]), int(ip[k + 1])):
            col[int(ind[t])] = col[int(ind[t])] + d[t]
        for i in range(n):
            ok = h.and_(ok, h.eq(col[i], X[i, j]))
    h.ensure('slice==X[:,cols]', ok)
    h.ensure('nnz-preserved', int(ip[-1]) == sum(1 for j in cols for i in range(n) if pattern[i][j]))


def u_power_start(h):
    """the power method must start from a random vector: a fixed start has matrices (dominant singular vector
    orthogonal to it) on which it returns a value far below the true norm"""
    from skglm.utils.sparse_ops import spectral_norm
    from vf import shim
    if h.mode == 'sym':
        calls = []
        orig = shim.rnd.randn

        def counting(*shape):
            calls.append(shape)
            return orig(*shape)
        shim.rnd.randn = counting
        try:
            Xc = np.array([[1.0, 1.0], [1.0, -1.0]])
            Xs = h.csc(h.const(Xc))
            val = spectral_norm(Xs.data, Xs.indptr, Xs.indices, 2, max_iter=1)
        finally:
            shim.rnd.randn = orig
        h.observe('calls', float(len(calls)))
        h.ensure('start-vector-drawn-from-rng', len(calls) == 1 and tuple(calls[0]) == (2,))
    else:
        # contrast-coded columns (each sums to zero): orthogonal to the all-ones vector
        Xc = np.array([[1.0, 0.0], [-1.0, 2.0], [0.0, -2.0], [0.0, 0.0]])
        Xs = h.csc(h.const(Xc))
        true = float(np.linalg.norm(Xc, ord=2))
        worst = min(float(spectral_norm(Xs.data, Xs.indptr, Xs.indices, 4)) for _ in range(5))
        h.observe('calls', 1.0)
        h.ensure('start-vector-drawn-from-rng', worst >= true * (1 - 1e-3))


def u_multitask_lipschitz(h, n, p, T, pattern):
    from vf.dual import Dual
    Dm = D()
    df = h.datafit(Dm.QuadraticMultiTask)
    X = _mk_X(h, n, p, pattern)
    Y = h.mat('Y', n, T)
    W = h.mat('W', p, T)
    XW = h.mat('XW', n, T)
    df.initialize(X, Y)
    L = df.get_lipschitz(X, Y)
    Xs = h.csc(X, pattern)
    Ls = df.get_lipschitz_sparse(Xs.data, Xs.indptr, Xs.indices, Y)
    for j in range(p):
        h.observe('L%d' % j, L[j])
        h.ensure('sparse==dense[%d]' % j, h.eq(L[j], Ls[j]))
    if h.mode != 'sym':
        return
    for j in range(p):
        for t in range(T):
            XW_d = h.arr([[Dual(XW[i, tt], X[i, j] if tt == t else 0.0) for tt in range(T)] for i in range(n)])
            g = df.gradient_j(X, Y, W, XW_d, j)
            h.ensure('L==curvature[%d,%d]' % (j, t), h.eq(L[j], _tan(g[t])))


def units(tier):
    us = []
    pats = PATTERNS_32[:4] if tier == 'quick' else PATTERNS_32
    for name in ('Quadratic', 'WeightedQuadratic', 'Huber', 'QuadraticSVC', 'Logistic'):
        for pi, pat in enumerate(pats):
            n = 2 if name in ('Huber',) else 3
            yc = (1, -1, 1)[:n] if name in ('Logistic', 'QuadraticSVC') else None
            us.append(Unit('C09/K/%s/get_lipschitz[n=%d,pattern=%d]' % (name, n, pi), u_lipschitz,
                           dict(name=name, n=n, p=2, pattern=pat[:n], ycombo=yc), wall_s=120))
    for name in ('Quadratic', 'WeightedQuadratic', 'Logistic', 'Poisson', 'Gamma'):
        us.append(Unit('C09/K/%s/raw_hessian' % name, u_raw_hessian,
                       dict(name=name, n=2, ycombo=(1, -1) if name == 'Logistic' else None), wall_s=60))
    from checks.c06 import weak_orderings
    k = 0
    for n in (2, 3):
        for ranks in weak_orderings(n):
            for s in itertools.product([0, 1], repeat=n):
                if not any(s):
                    continue
                k += 1
                if tier == 'quick' and n == 3 and k % 3:
                    continue
                for efron in (False, True):
                    us.append(Unit('C09/K/Cox/raw_hessian-bound[tm=%s,s=%s,efron=%s]' % (
                        ''.join(map(str, ranks)), ''.join(map(str, s)), efron), u_hessian_bound,
                        dict(which='Cox', tm=list(ranks), s=list(s), efron=efron), wall_s=120))
    us.append(Unit('C09/K/SqrtQuadratic/raw_hessian-bound', u_hessian_bound, dict(which='SqrtQuadratic', n=2), wall_s=90))
    full3 = [[1, 1], [1, 1], [1, 1]]
    for li, lay in enumerate([[[0, 1]], [[1], [0]]]):
        for n in ((2, 3) if li == 1 else (2,)):     # 2-column groups with n=3 symbolic rows: unknown at 40 s
            us.append(Unit('C09/K/QuadraticGroup/get_lipschitz[layout=%d,n=%d]' % (li, n), u_group_lipschitz,
                           dict(name='QuadraticGroup', n=n, layout=lay, pattern=full3[:n]), wall_s=120))
            us.append(Unit('C09/K/LogisticGroup/get_lipschitz[layout=%d,n=%d]' % (li, n), u_group_lipschitz,
                           dict(name='LogisticGroup', n=n, layout=lay, pattern=full3[:n], ycombo=(1, -1, 1)[:n]), wall_s=120))
    for name in ('Quadratic', 'WeightedQuadratic', 'Huber', 'Logistic', 'QuadraticSVC'):
        for n in (2,):
            yc = (1, -1, 1)[:n] if name in ('Logistic', 'QuadraticSVC') else None
            us.append(Unit('C09/K/%s/get_global_lipschitz[n=%d]' % (name, n), u_global_lipschitz,
                           dict(name=name, n=n, p=2, ycombo=yc), wall_s=120))
    for Xn in ('orth22', 'zero_last32', 'single31'):
        for it in ((1,) if tier == 'quick' else (1, 2)):
            us.append(Unit('C09/K/spectral_norm[X=%s,iters=%d]' % (Xn, it), u_power_method, dict(Xname=Xn, iters=it), wall_s=120))
    pat33 = [[1, 0, 1], [1, 0, 1], [0, 0, 1]]      # empty middle column
    for pat, cols in ((pat33, [0, 1, 2]), (pat33, [2, 1]), (pat33, [1]), ([[1, 1, 0], [0, 1, 0], [1, 0, 0]], [0, 2, 1]),
                      ([[0, 1, 1], [0, 0, 1], [0, 1, 1]], [0, 1, 2])):
        us.append(Unit('C09/K/sparse_columns_slice[pattern=%s,cols=%s]' % (''.join(str(v) for r in pat for v in r), cols),
                       u_sparse_slice, dict(pattern=pat, cols=cols), wall_s=60))
    us.append(Unit('C09/K/spectral_norm/random-start', u_power_start, {}, wall_s=60))
    for T in (1, 2):
        us.append(Unit('C09/K/QuadraticMultiTask/get_lipschitz[T=%d]' % T, u_multitask_lipschitz,
                       dict(n=3, p=2, T=T, pattern=PATTERNS_32[1]), wall_s=60))
    # CSC inputs whose trailing (or leading) samples store nothing: the sample count is Y's, not the largest stored row index
    for pi in (2, 3, 4, 5):
        us.append(Unit('C09/K/QuadraticMultiTask/get_lipschitz[T=2,pattern=%d]' % pi, u_multitask_lipschitz,
                       dict(n=3, p=2, T=2, pattern=PATTERNS_32[pi]), wall_s=60))
    return us


MANIFEST = dict(
    claimed=True,
    level_text=("Bounded symbolic model checking of every step-size constant: coordinate, group, task-row and global "
                "Lipschitz constants dominate (equal, for quadratic losses) the second directional derivative of the real "
                "value() for all (X, y, w) with n<=3, p<=2; CSC constants equal dense ones; raw_hessian equals "
                "d(raw_grad)/d(Xw) and is a PSD-dominating diagonal for Cox (Breslow and Efron, all tie/censoring patterns "
                "explored) and the square-root loss; the bounded sparse power method never exceeds the true norm."),
    level_note=("Exact reals; spectral norms via the exact 2-column closed form; power method with <=2 iterations from an "
                "arbitrary start on catalogue matrices (accuracy of the 100-iteration run is outside). "
                "WeightedQuadratic.get_global_lipschitz is excluded from the dominance obligation (its formula, "
                "norm(X.T @ sqrt(s))^2, is a vector norm and is not encodable as the documented bound); Poisson/Gamma have no "
                "global constants and are refused by AndersonCD (C13)."),
)
