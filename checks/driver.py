"""Family D: bounded runs of the real solver drivers with symbolic data, and the oracles applied at return.

run_driver(h, cfg) executes the real ``_solve`` (or ``solve`` with validation) of one solver on one composition and
returns a record; the oracle functions add obligations for C01/C03/C04/C05/C17/C19/C20.
"""
import numpy as np

from checks.common import P, D, X_of, mk_sep_penalty
from vf.sym import _isinf

# --------------------------------------------------------------------------------------------------
ANDERSON_K_PATCH = 2


def _patch_anderson(h, K):
    """rebind AndersonAcceleration in the solver modules so that K=5 (a literal in the drivers) becomes K.
    Only the constructor argument changes; the real extrapolate code runs."""
    import skglm.solvers.anderson_cd as acd
    import skglm.solvers.group_bcd as gbcd
    import skglm.solvers.gram_cd as gcd
    from skglm.utils.anderson import AndersonAcceleration as Real

    if K is None:
        for m in (acd, gbcd, gcd):
            m.AndersonAcceleration = Real
        return

    def mk(K_ignored=5, **kw):
        return Real(K)
    for m in (acd, gbcd, gcd):
        m.AndersonAcceleration = mk


def _patch_pn(h, cd_iter, bt_iter):
    import skglm.solvers.prox_newton as pn
    import skglm.solvers.group_prox_newton as gpn
    for m in (pn, gpn):
        if not hasattr(m, '_ORIG_CONSTS'):
            m._ORIG_CONSTS = (m.MAX_CD_ITER, m.MAX_BACKTRACK_ITER)
        if cd_iter is None:
            m.MAX_CD_ITER, m.MAX_BACKTRACK_ITER = m._ORIG_CONSTS
        else:
            m.MAX_CD_ITER, m.MAX_BACKTRACK_ITER = cd_iter, bt_iter


class _AccStub:
    """Method-level contract stub for AndersonAcceleration (symbolic runs only), pre-loaded to fire at a chosen
    call: returns an ARBITRARY pair that is consistent w.r.t. the columns it was called with -- exactly what the
    K-level obligation on the real ``extrapolate`` establishes (an affine combination, sum(c)=1, of stored
    consistent iterates is consistent; the part of the model fit carried by coefficients outside the working
    set is unchanged).  Every index is taken from the call arguments / the captured working set."""
    fire_at = 1
    catalogue = None
    seen = None
    lin = None        # function (w_arg, second_arg, w_acc) -> consistent second component

    def __init__(self, K=5):
        self.calls = 0

    def extrapolate(self, w, second):
        from vf.sym import Ctx, SymReal
        from vf import shim
        self.calls += 1
        if self.calls != _AccStub.fire_at:
            return w, second, False
        c = Ctx.cur
        k = len(w)
        if _AccStub.catalogue is not None:
            # proposals enumerated from a small catalogue (each coordinate independently; forks), keeps queries linear
            import z3
            from vf.sym import SymBool
            vals = []
            for _ in range(k):
                pick = _AccStub.catalogue[-1]
                for cand in _AccStub.catalogue[:-1]:
                    c._nfresh += 1
                    if bool(SymBool(z3.Bool("acc_pick#%d" % c._nfresh))):
                        pick = cand
                        break
                # exact rational constant AS A TERM: arithmetic on catalogue proposals must not be folded in floating point
                # (a 1e-17 rounding of the proposal's objective is a sliver the solver can steer alpha into)
                from fractions import Fraction
                vals.append(SymReal(z3.RealVal(str(Fraction(float(pick)).limit_denominator(1000)))))
            w_acc = shim.sarr(vals)
        else:
            w_acc = shim.sarr([SymReal(c.fresh("wacc")) for _ in range(k)])
        c.event('extrapolated')
        _AccStub.seen = dict(w_arg=[w[i] for i in range(k)], second=[second[i] for i in range(len(second))])
        return w_acc, _AccStub.lin(w, second, w_acc), True


def _install_acc_stub(h, cfg, Xc, fit_intercept, captured):
    import skglm.solvers.anderson_cd as acd
    import skglm.solvers.group_bcd as gbcd
    import skglm.solvers.gram_cd as gcd
    from vf import shim
    n, p = Xc.shape
    solver = cfg['solver']
    _AccStub.fire_at = cfg['acc_stub']
    _AccStub.catalogue = cfg.get('acc_catalogue')
    _AccStub.seen = None
    if solver == 'AndersonCD':
        def lin(w_arg, Xw_arg, w_acc):
            ws = captured['ws'][-(len(w_arg) - (1 if fit_intercept else 0)):]
            out = []
            for i in range(n):
                v = Xw_arg[i]
                for jj, j in enumerate(ws):
                    if Xc[i, j] != 0:
                        v = v + Xc[i, j] * (w_acc[jj] - w_arg[jj])
                if fit_intercept:
                    v = v + (w_acc[-1] - w_arg[-1])
                out.append(v)
            return shim.sarr(out)
        acd.AndersonAcceleration = _AccStub
    elif solver == 'GroupBCD':
        def lin(w_arg, Xw_arg, w_acc):
            out = []
            for i in range(n):
                v = Xw_arg[i]
                for j in range(p):
                    if Xc[i, j] != 0:
                        v = v + Xc[i, j] * (w_acc[j] - w_arg[j])
                if fit_intercept:
                    v = v + (w_acc[-1] - w_arg[-1])
                out.append(v)
            return shim.sarr(out)
        gbcd.AndersonAcceleration = _AccStub
    elif solver == 'GramCD':
        # exact Gram matrix (float products of catalogue entries can be one ulp off the rational they stand for, which the
        # engine would then take literally: spurious counterexamples in slivers of width 1e-17)
        from fractions import Fraction
        Xf = [[Fraction(float(Xc[i, j])).limit_denominator(10 ** 6) for j in range(p)] for i in range(n)]
        G = [[sum(Xf[i][j] * Xf[i][k] for i in range(n)) / n for k in range(p)] for j in range(p)]

        def lin(w_arg, g_arg, w_acc):
            return shim.sarr([g_arg[j] + sum(G[j][k] * (w_acc[k] - w_arg[k]) for k in range(p) if G[j][k] != 0)
                              for j in range(p)])
        gcd.AndersonAcceleration = _AccStub
    _AccStub.lin = staticmethod(lin)


GROUP_LAYOUTS = {'pair': [[0, 1]], 'rev': [[1], [0]], 'single': [[0], [1]], 'nc3': [[0, 2], [1]]}


def mk_group_objects(h, datafit, penalty, layout, positive=False, wg_concrete=None):
    Pm, Dm = P(), D()
    grp_ptr = np.cumsum([0] + [len(g) for g in layout]).astype(np.int32)
    grp_idx = np.array([i for g in layout for i in g], dtype=np.int32)
    al = h.real('alpha')
    h.assume(al > 0)
    ng = len(layout)
    if wg_concrete is not None:
        wg = h.const(np.array(wg_concrete, dtype=float)[:ng])
    else:
        wg = h.vec('wg', ng)
        for g in range(ng):
            h.assume(wg[g] >= 0)
    meta = dict(alpha=al, wg=wg, layout=layout, positive=positive, group=True, name=penalty)
    if penalty == 'WeightedGroupL2':
        pen = h.penalty(Pm.WeightedGroupL2, alpha=al, weights=wg, grp_ptr=grp_ptr, grp_indices=grp_idx,
                        positive=positive)
    else:
        pfeat = len(grp_idx)
        wf = h.vec('wf', pfeat)
        for k in range(pfeat):
            h.assume(wf[k] >= 0)
        meta['wf'] = wf
        pen = h.penalty(Pm.WeightedL1GroupL2, alpha=al, weights_groups=wg, weights_features=wf,
                        grp_ptr=grp_ptr, grp_indices=grp_idx)
    if datafit == 'QuadraticGroup':
        df = h.datafit(Dm.QuadraticGroup, grp_ptr=grp_ptr, grp_indices=grp_idx)
    else:
        df = h.datafit(Dm.LogisticGroup, grp_ptr=grp_ptr, grp_indices=grp_idx)
    return df, pen, meta


def mk_datafit(h, name, n, ylabels=None):
    """-> (datafit, y, dmeta)"""
    Dm = D()
    dm = dict(name=name)
    if name in ('Quadratic', 'QuadraticGroup'):
        yv = h.vec('y', n) if ylabels is None else h.const(np.array(ylabels, dtype=float))
        return (h.datafit(Dm.Quadratic) if name == 'Quadratic' else None), yv, dm
    if name == 'WeightedQuadratic':
        sw = h.const(np.array([1.0, 2.0, 0.5, 1.5][:n]))
        dm['sw'] = sw
        return h.datafit(Dm.WeightedQuadratic, sample_weights=sw), h.vec('y', n), dm
    if name == 'Huber':
        dl = h.constant(1.0)         # delta symbolic at kernel level (C06/C09); catalogue value at step/driver level
        h.assume(dl > 0)
        dm['delta'] = dl
        return h.datafit(Dm.Huber, delta=dl), h.vec('y', n), dm
    if name in ('Logistic', 'LogisticGroup'):
        y = h.const(np.array(ylabels or [1, -1, 1, -1][:n], dtype=float))
        return (h.datafit(Dm.Logistic) if name == 'Logistic' else None), y, dm
    if name == 'QuadraticSVC':
        y = h.const(np.array(ylabels or [1, -1, 1, -1][:n], dtype=float))
        return h.datafit(Dm.QuadraticSVC), y, dm
    if name == 'Poisson':
        y = h.vec('y', n)
        for i in range(n):
            h.assume(y[i] >= 0)
        return h.datafit(Dm.Poisson), y, dm
    if name == 'Gamma':
        y = h.vec('y', n)
        for i in range(n):
            h.assume(y[i] > 0)
        return h.datafit(Dm.Gamma), y, dm
    raise KeyError(name)


class Rec:
    pass


def run_driver(h, cfg):
    """Execute one bounded run.  cfg keys: solver, datafit, penalty, X, sparse, fit_intercept, ws_strategy, p0,
    max_iter, max_epochs, warm, tol_sym, layout (groups), K (anderson patch), use_acc, greedy_cd, via_solve"""
    import skglm.solvers as S
    solver_name = cfg['solver']
    Xc = X_of(cfg['X'])
    if h.mode != 'sym' and h.unpatched and cfg.get('acc_stub') and getattr(h, 'rng', None) is not None \
            and not cfg.get('keep_design'):
        # confirmation search with the real accelerator (K=5): extrapolation only matters on problems with more
        # coordinates than the catalogue designs, so the search draws a larger correlated design
        seed = int(float(h._val('design_seed'))) if 'design_seed' in h.values else int(h.rng.random() * 2 ** 31)
        h.values['design_seed'] = seed
        rs = np.random.RandomState(seed)
        nn, pp = 30, 16
        Xc = rs.randn(nn, pp)
        for j in range(1, pp):
            Xc[:, j] += rs.uniform(0, 3) * Xc[:, 0]
        if cfg.get('p0', 1) >= X_of(cfg['X']).shape[1]:
            cfg = dict(cfg, p0=pp)          # 'full working set' stays full on the larger design
        else:
            cfg = dict(cfg, p0=6)           # small working set, but large enough (> K=5) for the extrapolation to be regular
        cfg = dict(cfg, w0_concrete=None, ylabels=None)
        if cfg.get('two_iter'):
            cfg['max_iter'] = 8            # several working-set changes on the larger design
    if h.mode != 'sym' and h.unpatched and cfg.get('keep_design'):
        cfg = dict(cfg, ylabels=None)       # confirmation search on the catalogue design: targets are drawn at random
    n, p = Xc.shape
    fit_intercept = cfg.get('fit_intercept', False)
    R = Rec()
    R.cfg, R.n, R.p, R.Xc = cfg, n, p, Xc
    tol = h.real('tol')
    h.assume(tol > 0)
    R.tol = tol
    group = solver_name in ('GroupBCD', 'GroupProxNewton')
    if group:
        layout = GROUP_LAYOUTS[cfg.get('layout', 'rev')]
        df, pen, meta = mk_group_objects(h, cfg['datafit'], cfg['penalty'].rstrip('+'), layout,
                                         positive=cfg['penalty'].endswith('+'), wg_concrete=cfg.get('wg_concrete'))
        _, y, dmeta = mk_datafit(h, cfg['datafit'], n, cfg.get('ylabels'))
        dmeta['name'] = cfg['datafit']
    else:
        pen, meta = mk_sep_penalty(h, cfg['penalty'], p=p, step=None, concrete_hyper=cfg.get('concrete_hyper', True),
                                   zero_weight=cfg.get('zero_weights'),
                                   weights=(h.const(np.array(cfg['weights_concrete'], dtype=float))
                                            if cfg.get('weights_concrete') is not None else None))
        if solver_name == 'GramCD':
            df, y, dmeta = None, h.vec('y', n), dict(name='Quadratic')
        else:
            df, y, dmeta = mk_datafit(h, cfg['datafit'], n, cfg.get('ylabels'))
        # admissible curvature for non-convex penalties: the well-posed step range gamma > 1/L_j
        R.nonconvex = not meta['convex']
    R.pen, R.meta, R.df, R.dmeta, R.y = pen, meta, df, dmeta, y
    Xd = h.const(Xc)
    # 'explicit_zeros': every entry is STORED in the CSC arrays, zeros included (a column that was zeroed in place without
    # eliminate_zeros()): numerically empty but not structurally empty
    X = (h.csc(Xd, pattern=[[1] * p for _ in range(n)]) if cfg.get('explicit_zeros') else h.csc(Xd)) if cfg.get('sparse') else Xd
    R.X, R.Xd = X, Xd
    # well-posedness of non-convex penalties w.r.t. the coordinate Lipschitz constants
    if not group and not meta['convex'] and 'gamma' in meta:
        Lc = coordinate_lipschitz(cfg['datafit'] if solver_name != 'GramCD' else 'Quadratic', Xc, dmeta)
        for j in range(p):
            if Lc[j] > 0:
                wj = meta['weights'][j] if meta.get('weights') is not None else 1.0
                if cfg['penalty'].startswith('SCAD'):
                    h.assume(meta['gamma'] - 1 > 1.0 / Lc[j])
                else:
                    h.assume(meta['gamma'] * Lc[j] > wj)
    # start point
    nw = p + (1 if fit_intercept else 0)
    if cfg.get('warm'):
        A = np.hstack([Xc, np.ones((n, 1))]) if fit_intercept else Xc
        if cfg.get('param_fit') and A.shape[0] == A.shape[1] and abs(np.linalg.det(A)) > 1e-9:
            # square invertible design: parametrise the start by its model fit z = X w + b (a bijection), so that
            # exp/log arguments are plain variables
            from fractions import Fraction
            Ainv = np.linalg.inv(A)
            z = h.vec('z', n)
            w0l = []
            for k in range(nw):
                acc = 0.0
                for i in range(n):
                    c = float(Fraction(Ainv[k, i]).limit_denominator(10 ** 6))
                    if c != 0:
                        acc = acc + c * z[i]
                w0l.append(acc)
            w0 = h.arr(w0l)
            Xw0 = h.arr([z[i] for i in range(n)])
        else:
            if cfg.get('w0_concrete') is not None:
                w0 = h.const(np.array(cfg['w0_concrete'], dtype=float))
            elif cfg.get('warm_support') is not None:
                # warm start supported on the listed coordinates only (others exactly zero)
                w0 = h.arr([h.real('w0_%d' % k) if k in cfg['warm_support'] else 0.0 for k in range(nw)])
            else:
                w0 = h.vec('w0_', nw)
            b0 = w0[-1] if fit_intercept else 0.0
            if h.mode == 'sym':
                Xw0 = h.arr([sum(Xc[i, j] * w0[j] for j in range(p)) + b0 for i in range(n)])
            else:
                Xw0 = Xc @ np.asarray(w0[:p]) + b0
        if (meta.get('positive') or meta.get('box') is not None) and not cfg.get('infeasible_start'):
            if h.mode != 'sym' and h.unpatched:
                # random confirmation search: draw feasible warm starts
                w0 = np.array(w0, dtype=float)
                w0[:p] = np.abs(w0[:p])
                if meta.get('box') is not None:
                    w0[:p] = np.minimum(w0[:p], float(meta['box']))
                Xw0 = Xc @ w0[:p] + (w0[-1] if fit_intercept else 0.0)
            for j in range(p):
                h.assume(w0[j] >= 0)
                if meta.get('box') is not None:
                    h.assume(w0[j] <= meta['box'])
        w_start = [w0[j] for j in range(nw)]
        w_init, Xw_init = w0, Xw0
    else:
        w_init, Xw_init = None, None
        w_start = [0.0] * nw
    R.w_start = w_start
    kw = dict(tol=tol)
    patched = False
    if solver_name == 'AndersonCD':
        me = cfg['max_epochs']
        if (h.unpatched or (h.mode != 'sym' and cfg.get('acc_stub'))) and cfg.get('max_epochs_unpatched'):
            me = cfg['max_epochs_unpatched']
        kw.update(max_iter=cfg['max_iter'], max_epochs=me, p0=cfg.get('p0', 1),
                  ws_strategy=cfg.get('ws_strategy', 'subdiff'), fit_intercept=fit_intercept)
        solver = S.AndersonCD(**kw)
    elif solver_name == 'GramCD':
        mi = cfg['max_iter']
        if (h.unpatched or h.mode != 'sym') and cfg.get('max_iter_unpatched'):
            mi = cfg['max_iter_unpatched']
        kw.update(max_iter=mi, use_acc=cfg.get('use_acc', False), greedy_cd=cfg.get('greedy_cd', False),
                  fit_intercept=False)
        solver = S.GramCD(**kw)
    elif solver_name == 'ProxNewton':
        kw.update(max_iter=cfg['max_iter'], max_pn_iter=cfg.get('max_pn_iter', 1), p0=cfg.get('p0', 1),
                  ws_strategy=cfg.get('ws_strategy', 'subdiff'), fit_intercept=fit_intercept)
        solver = S.ProxNewton(**kw)
    elif solver_name == 'GroupBCD':
        kw.update(max_iter=cfg['max_iter'], max_epochs=cfg['max_epochs'], p0=cfg.get('p0', 1),
                  ws_strategy=cfg.get('ws_strategy', 'subdiff'), fit_intercept=fit_intercept)
        solver = S.GroupBCD(**kw)
    elif solver_name == 'GroupProxNewton':
        kw.update(max_iter=cfg['max_iter'], max_pn_iter=cfg.get('max_pn_iter', 1), p0=cfg.get('p0', 1),
                  fit_intercept=fit_intercept)
        solver = S.GroupProxNewton(**kw)
    elif solver_name == 'FISTA':
        kw.update(max_iter=cfg['max_iter'], opt_strategy=cfg.get('ws_strategy', 'subdiff'))
        solver = S.FISTA(**kw)
    else:
        raise KeyError(solver_name)
    R.solver = solver
    # bounds on literal constants
    captured = dict(ws=None)
    orig_argpart = None
    if cfg.get('acc_stub') and h.mode == 'sym':
        from vf import shim as _shim
        orig_argpart = _shim.npx.argpartition

        def _cap(a, kth, *aa, **kk):
            r = orig_argpart(a, kth, *aa, **kk)
            captured['ws'] = r
            return r
        _shim.npx.argpartition = _cap
        _install_acc_stub(h, cfg, Xc, fit_intercept, captured)
    elif cfg.get('K') is not None and not h.unpatched:
        _patch_anderson(h, cfg['K'])
    else:
        _patch_anderson(h, None)
    if solver_name in ('ProxNewton', 'GroupProxNewton'):
        if h.unpatched:
            _patch_pn(h, None, None)
        else:
            _patch_pn(h, cfg.get('cd_iter', 2), cfg.get('bt_iter', 2))
    if df is not None:
        if cfg.get('sparse'):
            if hasattr(df, 'initialize_sparse'):
                df.initialize_sparse(X.data, X.indptr, X.indices, y)
        elif hasattr(df, 'initialize'):
            df.initialize(X, y)
    # instrument: objective after every epoch / outer iteration (check-side wrappers)
    R.trace = []
    try:
        if cfg.get('via_solve'):
            out = solver.solve(X, y, df, pen, w_init, Xw_init)
        else:
            out = solver._solve(X, y, df, pen, w_init, Xw_init)
    finally:
        _patch_anderson(h, None)
        if orig_argpart is not None:
            from vf import shim as _shim
            _shim.npx.argpartition = orig_argpart
        if solver_name in ('ProxNewton', 'GroupProxNewton'):
            _patch_pn(h, None, None)
    R.w, R.obj_out, R.stop_crit = out
    R.acc_seen = _AccStub.seen if (cfg.get('acc_stub') and h.mode == 'sym') else None
    R.ws_captured = captured['ws']
    R.w_init, R.Xw_init = w_init, Xw_init
    R.fit_intercept = fit_intercept
    return R


# --------------------------------------------------------------------------------------------------
def coordinate_lipschitz(dname, Xc, dmeta):
    n = Xc.shape[0]
    if dname in ('Quadratic', 'Huber', 'QuadraticGroup'):
        return (Xc ** 2).sum(axis=0) / n
    if dname == 'WeightedQuadratic':
        sw = np.asarray(dmeta['sw'], dtype=float)
        return (sw[:, None] * Xc ** 2).sum(axis=0) / sw.sum()
    if dname in ('Logistic', 'LogisticGroup'):
        return (Xc ** 2).sum(axis=0) / (4 * n)
    if dname == 'QuadraticSVC':
        return (Xc ** 2).sum(axis=0)
    return (Xc ** 2).sum(axis=0) / n


def model_fit(h, R, w):
    """X w[:p] + b recomputed by the harness from the returned coefficients alone"""
    n, p, Xc = R.n, R.p, R.Xc
    b = w[p] if R.fit_intercept else 0.0
    return [sum(Xc[i, j] * w[j] for j in range(p) if Xc[i, j] != 0) + b for i in range(n)]


def datafit_value(h, R, w, Xw):
    name = R.dmeta['name']
    y = R.y
    n = R.n
    if R.df is not None:
        return R.df.value(y, h.arr([w[j] for j in range(R.p)]), h.arr(Xw))
    # GramCD: implicit quadratic
    return sum((y[i] - Xw[i]) * (y[i] - Xw[i]) for i in range(n)) / (2 * n)


def ref_gradient(h, R, w, Xw):
    """gradient of the datafit w.r.t. (w_0..w_{p-1}, b) from the harness-side model fit.
    sym mode: dual-number derivative of the real value(); float mode: closed forms."""
    n, p, Xc, y = R.n, R.p, R.Xc, R.y
    name = R.dmeta['name']
    if h.mode == 'sym':
        from vf.dual import Dual, tangent
        dirs = [[Xc[i, j] for i in range(n)] for j in range(p)]
        if R.fit_intercept:
            dirs.append([1.0] * n)
        out = []
        for k, d in enumerate(dirs):
            Xw_d = h.arr([Dual(Xw[i], d[i]) if d[i] != 0 else Xw[i] for i in range(n)])
            if name == 'QuadraticSVC' and k < p:
                wd = h.arr([Dual(w[j], 1.0 if j == k else 0.0) for j in range(p)])
            else:
                wd = h.arr([w[j] for j in range(p)])
            if R.df is not None:
                out.append(tangent(R.df.value(y, wd, Xw_d)))
            else:
                v = sum((y[i] - Xw_d[i]) * (y[i] - Xw_d[i]) for i in range(n)) / (2 * n)
                out.append(tangent(v))
        return out
    Xw = np.asarray(Xw, dtype=float)
    y = np.asarray(y, dtype=float)
    if name in ('Quadratic', 'QuadraticGroup'):
        raw = (Xw - y) / n
    elif name == 'WeightedQuadratic':
        sw = np.asarray(R.dmeta['sw'], dtype=float)
        raw = sw * (Xw - y) / sw.sum()
    elif name in ('Logistic', 'LogisticGroup'):
        raw = -y / (1 + np.exp(y * Xw)) / n
    elif name == 'Huber':
        dl = float(R.dmeta['delta'])
        r = y - Xw
        raw = np.where(np.abs(r) < dl, -r, -np.sign(r) * dl) / n
    elif name == 'Poisson':
        raw = (np.exp(Xw) - y) / n
    elif name == 'Gamma':
        raw = (1 - y * np.exp(-Xw)) / n
    elif name == 'QuadraticSVC':
        raw = Xw
    else:
        raise KeyError(name)
    g = list(Xc.T @ raw)
    if name == 'QuadraticSVC':
        g = [v - 1.0 for v in g]
    if R.fit_intercept:
        g.append(float(raw.sum()))
    return g


def sep_subdiff_dist(h, R, wj, gj, j):
    """distance of -g_j to the regular subdifferential of the penalty in coordinate j (oracle side).
    sym: one-sided slopes of the real value() by dual numbers; float: the penalty's own subdiff_distance."""
    pen, meta, p = R.pen, R.meta, R.p
    if h.mode != 'sym':
        w = np.zeros(p)
        w[j] = wj
        return float(pen.subdiff_distance(w, np.array([gj], dtype=float), np.array([j]))[0])
    from vf.dual import Dual, tangent
    from vf.shim import _smax
    if meta.get('positive') and bool(wj < 0):
        return float('inf')
    if meta.get('box') is not None and (bool(wj < 0) or bool(wj > meta['box'])):
        return float('inf')

    def slope(sgn):
        vals = [0.0] * p
        vals[j] = Dual(wj, sgn)
        v = pen.value(h.arr(vals))
        if _isinf(v):
            return None
        return tangent(v)
    up, dn = slope(+1), slope(-1)
    r = 0.0
    lo_inf = dn is None or (meta.get('positive') and not meta.get('constraint_in_value') and bool(wj == 0))
    if not lo_inf:
        r = _smax(r, -dn + gj)
    if up is not None:
        r = _smax(r, -gj - up)
    return r


def fixpoint_dist(h, R, wj, gj, j, Lj):
    if Lj == 0:
        return 0.0
    st = 1.0 / Lj
    return abs(wj - R.pen.prox_1d(wj - st * gj, st, j))


def violation_terms(h, R, w):
    """list of scalar violation terms (each must be <= tol for a valid certificate)"""
    p = R.p
    Xw = model_fit(h, R, w)
    g = ref_gradient(h, R, w, Xw)
    strategy = R.cfg.get('ws_strategy', 'subdiff')
    terms = []
    if R.meta.get('group'):
        # WeightedGroupL2, 'subdiff' scores: distance of -grad_g to the subdifferential of  alpha * wg_g * ||.||  at w_g
        # (oracle side: closed form of the norm's subdifferential; the penalty's own score is tied to it by C08)
        if R.meta['name'] != 'WeightedGroupL2':
            raise NotImplementedError
        from vf.shim import _smax
        al, wg, lay = R.meta['alpha'], R.meta['wg'], R.meta['layout']
        if strategy == 'fixpoint':
            # fixed-point residual of the block prox-gradient map with harness-recomputed block constants
            # L_g = ||X_g||_2^2 / n (singleton groups: the column's squared norm); the penalty's own prox is tied to its
            # value by C07.  A zero block (L_g = 0) carries no condition.
            if any(len(idxs) != 1 for idxs in lay) or R.dmeta['name'] != 'QuadraticGroup':
                raise NotImplementedError
            for gi_, idxs in enumerate(lay):
                j = idxs[0]
                Lg = float(sum(float(R.Xc[i, j]) ** 2 for i in range(R.n))) / R.n
                if Lg == 0:
                    terms.append(0.0)
                    continue
                st = 1.0 / Lg
                wv = h.arr([w[j]]) if h.mode == 'sym' else np.array([float(w[j])])
                pr = R.pen.prox_1group(wv - st * (h.arr([g[j]]) if h.mode == 'sym' else np.array([float(g[j])])), st, gi_)
                terms.append(abs(w[j] - pr[0]))
            if R.fit_intercept:
                terms.append(abs(g[p]))
            return terms
        for gi_, idxs in enumerate(lay):
            lam = al * wg[gi_]
            wv = [w[j] for j in idxs]
            gv = [g[j] for j in idxs]
            if h.mode != 'sym':
                wv, gv, lam = np.array(wv, dtype=float), np.array(gv, dtype=float), float(lam)
                if R.meta.get('positive') and np.any(wv < 0):
                    terms.append(float('inf'))
                elif np.all(wv == 0):
                    gg = np.minimum(gv, 0.0) if R.meta.get('positive') else gv
                    terms.append(max(0.0, float(np.linalg.norm(gg)) - lam))
                elif R.meta.get('positive'):
                    # boundary coordinates (w_j = 0) of a non-zero block only constrain the sign of the gradient
                    nw_ = np.linalg.norm(wv)
                    r = np.where(wv > 0, gv + lam * wv / nw_, np.maximum(-gv, 0.0))
                    terms.append(float(np.linalg.norm(r)))
                else:
                    terms.append(float(np.linalg.norm(gv + lam * wv / np.linalg.norm(wv))))
                continue
            if R.meta.get('positive') and any(bool(v < 0) for v in wv):
                terms.append(float('inf'))
                continue
            zero = all(bool(v == 0) for v in wv)
            if len(idxs) == 1:
                if zero:
                    gg = (-gv[0]) if R.meta.get('positive') else abs(gv[0])
                    terms.append(_smax(0.0, gg - lam))
                else:
                    sg = 1.0 if bool(wv[0] > 0) else -1.0
                    terms.append(abs(gv[0] + lam * sg))
            else:
                from vf import shim
                if zero:
                    gg = [(-v if bool(v < 0) else 0.0) for v in gv] if R.meta.get('positive') else gv
                    terms.append(_smax(0.0, shim.norm(h.arr(gg)) - lam))
                else:
                    nr = shim.norm(h.arr(wv))
                    if R.meta.get('positive'):
                        # boundary coordinates (w_j = 0) of a non-zero block only constrain the sign of the gradient
                        comp = [(gv[k] + lam * wv[k] / nr) if bool(wv[k] > 0) else _smax(-gv[k], 0.0) for k in range(len(idxs))]
                    else:
                        comp = [gv[k] + lam * wv[k] / nr for k in range(len(idxs))]
                    terms.append(shim.norm(h.arr(comp)))
        if R.fit_intercept:
            terms.append(abs(g[p]))
        return terms
    if strategy == 'fixpoint' and R.cfg['solver'] in ('AndersonCD',):
        Lc = coordinate_lipschitz(R.dmeta['name'], R.Xc, R.dmeta)
        for j in range(p):
            terms.append(fixpoint_dist(h, R, w[j], g[j], j, float(Lc[j])))
    elif strategy == 'fixpoint' and R.cfg['solver'] == 'ProxNewton':
        # ProxNewton scores with the local curvature  L_j = sum_i hess_i X_ij^2  (raw_hessian is tied to the
        # loss by C09); the model fit is the harness's own
        hess = R.df.raw_hessian(R.y, h.arr(Xw))
        for j in range(p):
            Lj = sum(hess[i] * float(R.Xc[i, j]) ** 2 for i in range(R.n) if R.Xc[i, j] != 0)
            if (h.mode == 'sym' and bool(Lj == 0)) or (h.mode != 'sym' and Lj == 0):
                terms.append(0.0)
            else:
                st = 1.0 / Lj
                terms.append(abs(w[j] - R.pen.prox_1d(w[j] - st * g[j], st, j)))
    else:
        for j in range(p):
            terms.append(sep_subdiff_dist(h, R, w[j], g[j], j))
    if R.fit_intercept:
        terms.append(abs(g[p]))
    return terms


def objective(h, R, w):
    """true objective F(w) recomputed from w alone (intercept unpenalised)"""
    Xw = model_fit(h, R, w)
    v = datafit_value(h, R, w, Xw)
    pv = R.pen.value(h.arr([w[j] for j in range(R.p)]))
    if _isinf(pv):
        return pv
    return v + pv
