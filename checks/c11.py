"""C11 -- each ready-made estimator minimises exactly its documented objective (family E + K)."""
import numpy as np

from checks.common import Unit
from checks import estim as ES
from vf.sym import _isinf

EXPLANATION = ("The real Estimator.fit is executed with symbolic constructor arguments and data up to the intercepted "
               "solver.solve(...). z3 decides that datafit.value + penalty.value of the objects the estimator built equals the "
               "objective written in its documentation for ALL coefficient vectors, that every solver knob reaches the solver "
               "unchanged, that the start point is the documented cold start, and that coef_/intercept_/dual_coef_/n_iter_/"
               "stop_crit_ are the documented images of an arbitrary solver result (LinearSVC: coef_ = sum_i dual_i y_i x_i).")
ASSUMPTIONS = [
    "sklearn validators (check_array, check_consistent_length, check_is_fitted) are identity stubs in the symbolic run",
    "environment stub: BaseEstimator._validate_data (removed from the installed scikit-learn 1.9) is replaced by an identity on "
    "the estimator instance; without it every regression estimator's fit raises AttributeError before doing anything",
    "BaseSolver.solve is intercepted: stationarity of what the solver then returns is C01 for the captured composition",
    "documented objectives transcribed from the class docstrings (reference model)",
]
BOUNDS = dict(quick="n=3, p=2 (groups [[0],[1]] and [[0,1]]; T=2 tasks)", thorough="same plus more label sets / group formats")


def _quad(X, y, w, b, n, p):
    return sum((y[i] - sum(X[i, j] * w[j] for j in range(p)) - b) ** 2 for i in range(n)) / (2 * n)


def _fit_and_capture(h, est, X, y, n_coef, n_tasks=None):
    res = {}

    def result(k, call):
        res['ret'] = ES.sym_result(h, n_coef, tag='c', n_tasks=n_tasks)
        return res['ret']
    with ES.sklearn_stubs(h):
        with ES.intercept_solve(h, result) as cap:
            ES.compat(est).fit(X, y)
    h.ensure('solve-called-once', len(cap.calls) == 1)
    return cap.calls[0], res['ret']


def _objective(h, call, w, b, n):
    """datafit.value + penalty.value of the captured objects at (w, b), model fit recomputed from the captured X"""
    Xc = call['X']
    p = len(w)
    if h.mode == 'sym':
        Xw = h.arr([sum(Xc[i, j] * w[j] for j in range(p)) + b for i in range(n)])
        wv = h.arr([w[j] for j in range(p)])
    else:
        Xw = np.asarray(Xc) @ np.asarray(w, dtype=float) + b
        wv = np.asarray(w, dtype=float)
    pv = call['penalty'].value(wv)
    return call['datafit'].value(call['y'], wv, Xw), pv


def _knobs(h, est, solver, names):
    for nm in names:
        a, b = getattr(est, nm), getattr(solver, nm)
        ok = (a is b) or (not hasattr(a, 't') and not hasattr(b, 't') and a == b)
        h.ensure('knob[%s]' % nm, ok)


def u_regression(h, name, positive=False, fit_intercept=True, groups=None):
    import skglm
    n, p = 3, 2
    X = h.mat('X', n, p)
    y = h.vec('y', n)
    A = h.real('alpha')
    tol = h.real('tol')
    h.assume(A > 0, tol > 0)
    common = dict(alpha=A, tol=tol, max_iter=7, max_epochs=11, p0=3, fit_intercept=fit_intercept, warm_start=False)
    w = h.vec('w', p)
    b = h.real('b') if fit_intercept else 0.0
    if name == 'Lasso':
        est = skglm.Lasso(positive=positive, ws_strategy='fixpoint', **common)
        pen_doc = A * sum(abs(w[j]) for j in range(p))
    elif name == 'WeightedLasso':
        wt = h.vec('wt', p)
        for j in range(p):
            h.assume(wt[j] >= 0)
        est = skglm.WeightedLasso(weights=wt, positive=positive, ws_strategy='fixpoint', **common)
        pen_doc = A * sum(wt[j] * abs(w[j]) for j in range(p))
    elif name == 'ElasticNet':
        r = h.real('l1_ratio')
        h.assume(r >= 0, r <= 1)
        est = skglm.ElasticNet(l1_ratio=r, positive=positive, ws_strategy='fixpoint', **common)
        pen_doc = A * r * sum(abs(w[j]) for j in range(p)) + A * (1 - r) / 2 * sum(w[j] * w[j] for j in range(p))
    elif name in ('MCPRegression', 'WeightedMCPRegression'):
        g = h.real('gamma')
        h.assume(g > 1)
        wt = None
        if name == 'WeightedMCPRegression':
            wt = h.vec('wt', p)
            for j in range(p):
                h.assume(wt[j] >= 0)
        est = skglm.MCPRegression(gamma=g, weights=wt, positive=positive, ws_strategy='fixpoint', **common)

        def mcp(x):
            ax = abs(x)
            return (A * ax - x * x / (2 * g)) if bool(ax <= A * g) else g * A * A / 2
        pen_doc = sum((wt[j] if wt is not None else 1) * mcp(w[j]) for j in range(p))
    elif name == 'GroupLasso':
        wg = h.vec('wg', len(groups) if isinstance(groups, list) else p // groups)
        for k in range(len(wg)):
            h.assume(wg[k] >= 0)
        cm = dict(common)
        cm.pop('ws_strategy', None)
        est = skglm.GroupLasso(groups=groups, weights=wg, positive=positive, ws_strategy='subdiff', **cm)
        glist = groups if (isinstance(groups, list) and isinstance(groups[0], list)) else (
            [[0, 1]] if groups in (2, [2]) else [[0], [1]])
        from vf.shim import norm as snorm
        if h.mode == 'sym':
            pen_doc = A * sum(wg[k] * snorm(h.arr([w[j] for j in gl])) for k, gl in enumerate(glist))
        else:
            pen_doc = A * sum(wg[k] * float(np.linalg.norm([w[j] for j in gl])) for k, gl in enumerate(glist))
    else:
        raise KeyError(name)
    if positive:
        for j in range(p):
            h.assume(w[j] >= 0)
    call, (coefs, hist, kkt) = _fit_and_capture(h, est, X, y, p + (1 if fit_intercept else 0))
    dv, pv = _objective(h, call, w, b, n)
    h.observe('datafit', dv)
    h.ensure('datafit==documented', h.eq(dv, _quad(X, y, w, b, n, p)))
    h.ensure('penalty==documented', h.false() if _isinf(pv) else h.eq(pv, pen_doc))
    sol = call['solver']
    _knobs(h, est, sol, ['tol', 'max_iter', 'max_epochs', 'p0', 'fit_intercept', 'warm_start']
           + (['ws_strategy'] if name != 'GroupLasso' else []))
    # same data handed to the solver
    same = h.true()
    for i in range(n):
        same = h.and_(same, h.eq(call['y'][i], y[i]))
        for j in range(p):
            same = h.and_(same, h.eq(call['X'][i, j], X[i, j]))
    h.ensure('data-passed-unchanged', same)
    # documented cold start
    cold = h.true()
    for k in range(len(call['w_init'])):
        cold = h.and_(cold, h.eq(call['w_init'][k], 0))
    for i in range(n):
        cold = h.and_(cold, h.eq(call['Xw_init'][i], 0))
    h.ensure('cold-start', cold)
    # assembly of fitted attributes from an arbitrary solver result
    asm = h.true()
    for j in range(p):
        asm = h.and_(asm, h.eq(est.coef_[j], coefs[j]))
    asm = h.and_(asm, h.eq(est.intercept_, coefs[p] if fit_intercept else 0.0))
    h.ensure('fitted-attributes', asm)
    h.ensure('n_iter_', est.n_iter_ == len(hist))
    h.ensure('stop_crit_', h.eq(est.stop_crit_, kkt))
    if positive and hasattr(call['penalty'], 'positive'):
        h.ensure('positive-flag', bool(call['penalty'].positive) is True)


def u_logreg(h, labels, fit_intercept=True):
    import skglm
    n, p = 3, 2
    X = h.mat('X', n, p)
    A = h.real('alpha')
    tol = h.real('tol')
    h.assume(A > 0, tol > 0)
    y = np.array(labels)
    est = skglm.SparseLogisticRegression(alpha=A, tol=tol, max_iter=7, max_epochs=11, fit_intercept=fit_intercept)
    call, (coefs, hist, kkt) = _fit_and_capture(h, est, X, y, p + (1 if fit_intercept else 0))
    w = h.vec('w', p)
    b = h.real('b') if fit_intercept else 0.0
    classes = sorted(set(labels))
    ypm = [1.0 if v == classes[1] else -1.0 for v in labels]
    dv, pv = _objective(h, call, w, b, n)
    ref = sum(h.np.log(1 + h.np.exp(-ypm[i] * (sum(X[i, j] * w[j] for j in range(p)) + b))) for i in range(n)) / n
    h.ensure('datafit==documented', h.eq(dv, ref))
    h.ensure('penalty==documented', h.eq(pv, A * sum(abs(w[j]) for j in range(p))))
    sol = call['solver']
    h.ensure('knob[tol]', sol.tol is est.tol)
    h.ensure('knob[max_iter]', sol.max_iter == 7 and sol.max_pn_iter == 11)
    h.ensure('knob[fit_intercept]', sol.fit_intercept == fit_intercept)
    h.ensure('classes_', list(est.classes_) == classes)
    asm = h.true()
    for j in range(p):
        asm = h.and_(asm, h.eq(est.coef_[0, j], coefs[j]))
    asm = h.and_(asm, h.eq(est.intercept_, coefs[p] if fit_intercept else 0.0))
    h.ensure('fitted-attributes', asm)
    h.ensure('n_iter_', est.n_iter_ == len(hist))
    h.observe('x', coefs[0])


def u_svc(h, labels):
    import skglm
    n, p = 3, 2
    X = h.mat('X', n, p)
    C = h.real('C')
    tol = h.real('tol')
    h.assume(C > 0, tol > 0)
    y = np.array(labels)
    est = skglm.LinearSVC(C=C, tol=tol, max_iter=7, max_epochs=11, p0=3, fit_intercept=False)
    call, (coefs, hist, kkt) = _fit_and_capture(h, est, X, y, n)
    classes = sorted(set(labels))
    ypm = [1.0 if v == classes[1] else -1.0 for v in labels]
    # the solver sees (y X)^T : shape (p, n)
    same = h.true()
    for j in range(p):
        for i in range(n):
            same = h.and_(same, h.eq(call['X'][j, i], ypm[i] * X[i, j]))
    h.ensure('design-is-(yX)^T', same)
    u = h.vec('u', n)
    for i in range(n):
        h.assume(u[i] >= 0, u[i] <= C)
    if h.mode == 'sym':
        yXTu = h.arr([sum(ypm[i] * X[i, j] * u[i] for i in range(n)) for j in range(p)])
    else:
        yXTu = np.array([sum(ypm[i] * X[i, j] * u[i] for i in range(n)) for j in range(p)])
    dv = call['datafit'].value(call['y'], u, yXTu)
    pv = call['penalty'].value(u)
    ref = sum(yXTu[j] * yXTu[j] for j in range(p)) / 2 - sum(u[i] for i in range(n))
    h.ensure('dual-objective==documented', h.eq(dv + pv, ref))
    h.ensure('box-is-[0,C]', h.eq(call['penalty'].alpha, C))
    prim = h.true()
    for j in range(p):
        prim = h.and_(prim, h.eq(est.coef_[0, j], sum(coefs[i] * ypm[i] * X[i, j] for i in range(n))))
    h.ensure('coef_-is-primal-image-of-dual', prim)
    dual = h.true()
    for i in range(n):
        dual = h.and_(dual, h.eq(est.dual_coef_[0, i], coefs[i]))
    h.ensure('dual_coef_', dual)
    h.observe('x', coefs[0])


def u_multitask(h, fit_intercept=True):
    import skglm
    n, p, T = 3, 2, 2
    X = h.mat('X', n, p)
    Y = h.mat('Y', n, T)
    A = h.real('alpha')
    tol = h.real('tol')
    h.assume(A > 0, tol > 0)
    est = skglm.MultiTaskLasso(alpha=A, tol=tol, max_iter=7, max_epochs=11, p0=3, fit_intercept=fit_intercept)
    call, (coefs, hist, kkt) = _fit_and_capture(h, est, X, Y, p + (1 if fit_intercept else 0), n_tasks=T)
    W = h.mat('W', p, T)
    bb = h.vec('b', T) if fit_intercept else [0.0] * T
    if h.mode == 'sym':
        XW = h.arr([[sum(X[i, j] * W[j, t] for j in range(p)) + bb[t] for t in range(T)] for i in range(n)])
    else:
        XW = np.asarray(X) @ np.asarray(W) + np.asarray(bb)
    dv = call['datafit'].value(call['y'], W, XW)
    pv = call['penalty'].value(W)
    ref = sum((Y[i, t] - XW[i, t]) ** 2 for i in range(n) for t in range(T)) / (2 * n)
    h.ensure('datafit==documented', h.eq(dv, ref))
    from vf.shim import norm as snorm
    if h.mode == 'sym':
        pref = A * sum(snorm(h.arr([W[j, t] for t in range(T)])) for j in range(p))
    else:
        pref = A * sum(float(np.linalg.norm(np.asarray(W)[j])) for j in range(p))
    h.ensure('penalty==documented', h.eq(pv, pref))
    _knobs(h, est, call['solver'], ['tol', 'max_iter', 'max_epochs', 'p0', 'fit_intercept', 'ws_strategy'])
    asm = h.true()
    for j in range(p):
        for t in range(T):
            asm = h.and_(asm, h.eq(est.coef_[t, j], coefs[j, t]))
    for t in range(T):
        asm = h.and_(asm, h.eq(est.intercept_[t] if fit_intercept else 0.0, coefs[p, t] if fit_intercept else 0.0))
    h.ensure('fitted-attributes', asm)
    h.ensure('n_iter_', est.n_iter_ == len(hist))
    h.observe('x', coefs[0, 0])


def u_sqrt_lasso(h):
    from skglm.experimental.sqrt_lasso import SqrtLasso
    n, p = 3, 2
    X = h.mat('X', n, p)
    y = h.vec('y', n)
    A = h.real('alpha')
    tol = h.real('tol')
    h.assume(A > 0, tol > 0)
    est = SqrtLasso(alpha=A, tol=tol, max_iter=7)
    call, (coefs, hist, kkt) = _fit_and_capture(h, est, X, y, p)
    w = h.vec('w', p)
    dv, pv = _objective(h, call, w, 0.0, n)
    sq = sum((y[i] - sum(X[i, j] * w[j] for j in range(p))) ** 2 for i in range(n))
    h.ensure('datafit==documented', h.and_(h.ge(dv, 0), h.eq(dv * dv, sq)))
    h.ensure('penalty==documented', h.eq(pv, A * sum(abs(w[j]) for j in range(p))))
    h.ensure('knob[tol]', call['solver'].tol is est.tol)
    asm = h.true()
    for j in range(p):
        asm = h.and_(asm, h.eq(est.coef_[j], coefs[j]))
    h.ensure('fitted-attributes', asm)
    h.observe('x', coefs[0])


def u_reweight_weights(h, pen_name):
    """IterativeReweightedL1 majorises  alpha * sum_j phi(|w_j|)  (phi concave on [0, inf)) by the weighted L1 norm with
    weights  penalty.derivative(w): those weights must be (1) non-negative -- otherwise the surrogate is not convex --,
    (2) a function of |w_j| only, and (3) non-increasing in |w_j| (concavity of phi), in particular largest at w_j = 0."""
    import skglm.penalties as Pm
    al = h.constant(1.0)
    if pen_name == 'LogSumPenalty':
        e = h.real('eps')
        h.assume(e > 0)
        pen = h.penalty(Pm.LogSumPenalty, alpha=al, eps=e)
    else:
        pen = h.penalty(getattr(Pm, pen_name), alpha=al)
    x1, x2 = h.real('x1'), h.real('x2')
    h.observe('x1', x1)
    mk = (lambda v: h.arr(v)) if h.mode == 'sym' else (lambda v: np.array(v, dtype=float))
    d = pen.derivative(mk([x1, x2, -x1]))
    h.ensure('weights-are-non-negative', h.and_(h.ge(d[0], 0), h.ge(d[1], 0)))
    h.ensure('weight-depends-on-|w|-only', h.eq(d[0], d[2]))
    a1, a2 = abs(x1), abs(x2)
    h.ensure('weights-non-increasing-in-|w|', h.implies(h.le(a1, a2), h.ge(d[0], d[1])))
    if pen_name == 'LogSumPenalty' and h.mode != 'sym':
        t = abs(float(h.real('t'))) + 0.05
        e_ = 1e-6 * (1 + t)
        dphi = (float(pen.value(np.array([t + e_]))) - float(pen.value(np.array([t - e_])))) / (2 * e_)
        dt = pen.derivative(np.array([t]))
        h.ensure('weight==derivative-of-the-concave-function', abs(float(al) * float(dt[0]) - dphi) <= 1e-5 * (1 + abs(dphi)))
    if pen_name == 'LogSumPenalty' and h.mode == 'sym':
        # no regularisation constant in this one: the weight IS the derivative of phi(t) = log(1 + t/eps) at t = |w| (tangent
        # majoriser), obtained from the penalty's own value() by a dual number
        from vf.dual import Dual, tangent
        t = h.real('t')
        h.assume(t > 0)
        dphi = tangent(pen.value(h.arr([Dual(t, 1.0)])))
        dt = pen.derivative(h.arr([t]))
        h.ensure('weight==derivative-of-the-concave-function', h.eq(al * dt[0], dphi))


def u_reweighted_estimator(h, pen_name):
    """real IterativeReweightedL1.fit with the solver intercepted: surrogate k+1 is WeightedL1(alpha, derivative(coef_k)),
    the first one has unit weights, coef_ is the last solution, one history entry per reweighting"""
    import skglm.penalties as Pm
    from skglm.experimental.reweighted import IterativeReweightedL1
    from skglm.solvers import AndersonCD
    n, p, K = 3, 2, 3
    X = h.mat('X', n, p)
    y = h.vec('y', n)
    A = h.real('alpha')
    h.assume(A > 0)
    pen = Pm.L0_5(A) if pen_name == 'L0_5' else Pm.LogSumPenalty(A, h.constant(0.5))
    est = IterativeReweightedL1(penalty=pen, solver=AndersonCD(fit_intercept=False), n_reweights=K)
    rets = []

    def result(k, call):
        r = ES.sym_result(h, p, tag='c%d_' % k)
        for j in range(p):
            h.assume(h.ne(r[0][j], 0))            # (weights at exactly 0 are the kernel unit's subject)
        rets.append((r, call['penalty'].weights.copy(), call['penalty'].alpha))
        return r
    with ES.sklearn_stubs(h):
        with ES.intercept_solve(h, result) as cap:
            est.fit(X, y)
    h.ensure('one-solve-per-reweighting', len(cap.calls) == K)
    h.ensure('history-length', len(est.loss_history_) == K)
    for k in range(min(K, len(rets))):
        wts = rets[k][1]
        h.ensure('surrogate-alpha[%d]' % k, h.eq(rets[k][2], A))
        if k == 0:
            h.ensure('first-surrogate-is-the-lasso', h.and_(h.eq(wts[0], 1), h.eq(wts[1], 1)))
        else:
            prev = rets[k - 1][0][0]
            d = est.penalty.derivative(h.arr([prev[j] for j in range(p)]) if h.mode == 'sym' else np.array(prev[:p], dtype=float))
            h.ensure('surrogate-weights[%d]==derivative(previous solution)' % k, h.and_(h.eq(wts[0], d[0]), h.eq(wts[1], d[1])))
            h.ensure('surrogate-%d-is-convex (weights >= 0)' % k, h.and_(h.ge(wts[0], 0), h.ge(wts[1], 0)))
    last = rets[-1][0][0]
    h.ensure('coef_-is-the-last-solution', h.and_(h.eq(est.coef_[0], last[0]), h.eq(est.coef_[1], last[1])))
    h.observe('x', last[0])


def u_exact_on_orthogonal_design(h, weights, p0):
    """WeightedLasso's solver configuration (AndersonCD, weighted L1 with zero = unpenalised weights) on a design with
    orthogonal columns of equal norm: one coordinate-descent epoch over a working set that contains the unpenalised features
    plus p0 others covers both features and solves the problem EXACTLY -- the returned point has zero violation"""
    from checks import driver as DR
    cfg = dict(solver='AndersonCD', datafit='Quadratic', penalty='WeightedL1', X='orth22', max_iter=1, max_epochs=1, p0=p0,
               fit_intercept=False, ws_strategy='subdiff', warm=False, weights_concrete=weights)
    R = DR.run_driver(h, cfg)
    w = [R.w[k] for k in range(len(R.w))]
    for k in range(len(w)):
        h.observe('w%d' % k, w[k])
    stopped = h.le(R.stop_crit, R.tol)
    if (h.mode == 'sym' and bool(stopped)) or (h.mode != 'sym' and stopped.strict):
        h.ensure('one-epoch-is-exact', True)       # the start already met the tolerance: no epoch was run
        return
    ok = h.true()
    for t in DR.violation_terms(h, R, w):
        ok = h.and_(ok, h.false() if DR._isinf(t) else h.eq(t, 0))
    h.ensure('one-epoch-is-exact', ok)


def u_glm_estimator(h):
    """GeneralizedLinearEstimator hands exactly the user's components to the solver; Lasso == GLE(Quadratic, L1, AndersonCD)"""
    import skglm
    from skglm.datafits import Quadratic
    from skglm.penalties import L1
    from skglm.solvers import AndersonCD
    n, p = 3, 2
    X = h.mat('X', n, p)
    y = h.vec('y', n)
    A = h.real('alpha')
    tol = h.real('tol')
    h.assume(A > 0, tol > 0)
    est = skglm.GeneralizedLinearEstimator(Quadratic(), L1(A), AndersonCD(tol=tol, max_iter=7, fit_intercept=True))
    call, (coefs, hist, kkt) = _fit_and_capture(h, est, X, y, p + 1)
    w = h.vec('w', p)
    b = h.real('b')
    dv, pv = _objective(h, call, w, b, n)
    h.ensure('datafit==documented', h.eq(dv, _quad(X, y, w, b, n, p)))
    h.ensure('penalty==documented', h.eq(pv, A * sum(abs(w[j]) for j in range(p))))
    h.ensure('solver-is-the-users', call['solver'] is est.solver)
    asm = h.true()
    for j in range(p):
        asm = h.and_(asm, h.eq(est.coef_[j], coefs[j]))
    asm = h.and_(asm, h.eq(est.intercept_, coefs[p]))
    h.ensure('fitted-attributes', asm)
    h.observe('x', coefs[0])


def u_cox(h, method, l1_case):
    """CoxEstimator: method selects Efron / Breslow (the partial likelihoods themselves are tied to the datafit in C06),
    penalty = alpha * (l1_ratio ||w||_1 + (1 - l1_ratio)/2 ||w||^2)"""
    import skglm
    n, p = 3, 2
    X = h.mat('X', n, p)
    A = h.real('alpha')
    h.assume(A > 0)
    if l1_case == 'one':
        r = 1.0
    elif l1_case == 'zero':
        r = 0.0
    else:
        r = h.real('l1_ratio')
        h.assume(r > 0, r < 1)
    y = h.const(np.array([[1.0, 1.0], [1.0, 0.0], [2.0, 1.0]]))      # a tie between an event and a censored observation
    est = skglm.CoxEstimator(alpha=A, l1_ratio=r, method=method, tol=1e-6, max_iter=9)
    if h.mode == 'sym':
        est._validate_params = lambda: None      # sklearn's parameter validation calls np.isnan on the (symbolic) values
    call, (coefs, hist, kkt) = _fit_and_capture(h, est, X, y, p)
    df, pen = call['datafit'], call['penalty']
    h.ensure('method-selects-tie-handling', bool(df.use_efron) == (method == 'efron'))
    w = h.vec('w', p)
    wv = h.arr([w[j] for j in range(p)]) if h.mode == 'sym' else np.asarray(w, dtype=float)
    pv = pen.value(wv)
    ref = A * (r * sum(abs(w[j]) for j in range(p)) + (1 - r) / 2 * sum(w[j] * w[j] for j in range(p)))
    h.ensure('penalty==documented', h.eq(pv, ref))
    sol = call['solver']
    h.ensure('knob[max_iter]', sol.max_iter == 9)
    h.ensure('knob[tol]', sol.tol == 1e-6)
    h.ensure('no-intercept', getattr(sol, 'fit_intercept', False) is False and est.intercept_ == 0.)
    asm = h.true()
    for j in range(p):
        asm = h.and_(asm, h.eq(est.coef_[j], coefs[j]))
    h.ensure('fitted-attributes', asm)
    h.ensure('stop_crit_', h.eq(est.stop_crit_, kkt))
    h.observe('x', coefs[0])


def units(tier):
    us = []
    for name in ('Lasso', 'WeightedLasso', 'ElasticNet', 'MCPRegression', 'WeightedMCPRegression'):
        for pos in (False, True):
            for fi in (True, False):
                us.append(Unit('C11/E/%s[positive=%s,fit_intercept=%s]' % (name, pos, fi), u_regression,
                               dict(name=name, positive=pos, fit_intercept=fi), wall_s=90))
    for groups in ([[0], [1]], [[1], [0]], [[0, 1]], 1, 2, [1, 1]):
        for pos in (False, True):
            us.append(Unit('C11/E/GroupLasso[groups=%s,positive=%s]' % (groups, pos), u_regression,
                           dict(name='GroupLasso', positive=pos, fit_intercept=True, groups=groups), wall_s=90))
    for labels in (['a', 'b', 'a'], [3, 7, 7], [-1, 1, 1], [0, 1, 0]):
        for fi in (True, False):
            us.append(Unit('C11/E/SparseLogisticRegression[labels=%s,fit_intercept=%s]' % (labels, fi), u_logreg,
                           dict(labels=labels, fit_intercept=fi), wall_s=120))
        us.append(Unit('C11/E/LinearSVC[labels=%s]' % (labels,), u_svc, dict(labels=labels), wall_s=90))
    for fi in (True, False):
        us.append(Unit('C11/E/MultiTaskLasso[fit_intercept=%s]' % fi, u_multitask, dict(fit_intercept=fi), wall_s=90))
    for method in ('efron', 'breslow'):
        for l1 in ('one', 'mid', 'zero'):
            us.append(Unit('C11/E/CoxEstimator[method=%s,l1_ratio=%s]' % (method, l1), u_cox, dict(method=method, l1_case=l1),
                           wall_s=90))
    us.append(Unit('C11/E/SqrtLasso', u_sqrt_lasso, {}, wall_s=90))
    # the components the estimators hand to the solver do minimise / differentiate the documented terms: proximal operators
    # of the penalties built above (global minimiser of the documented penalty's prox objective, C07 obligations) and the Cox
    # datafit against the documented partial likelihood with ties and censoring (C06 obligations)
    from checks import c07, c06
    for lay, g in (([[0, 1]], 0), ([[1], [0]], 1)):
        for pos in (False, True):
            us.append(Unit('C11/K/GroupLasso-prox[layout=%s,g=%d,positive=%s]' % (lay, g, pos), c07.u_prox_group,
                           dict(kind='WeightedGroupL2', layout=lay, g=g, positive=pos), wall_s=60))
    for name in ('L1', 'L1+', 'WeightedL1', 'L1_plus_L2', 'L1_plus_L2+', 'MCPenalty', 'WeightedMCPenalty', 'IndicatorBox'):
        us.append(Unit('C11/K/estimator-penalty-prox[%s]' % name, c07.u_prox1d, dict(name=name, j=1), wall_s=60))
    for tm, sv in (([0, 0], [0, 1]), ([0, 1, 0], [1, 0, 1]), ([1, 0, 0], [0, 1, 1]), ([1, 1, 0], [1, 1, 0]), ([0, 0, 1], [1, 0, 1])):
        for efron in (False, True):
            us.append(Unit('C11/K/Cox-datafit[tm=%s,s=%s,efron=%s]' % (tm, sv, efron), c06.u_cox,
                           dict(tm=tm, s=sv, efron=efron, sparse_pattern=[[1, 0], [0, 1], [1, 1]][:len(tm)]), wall_s=60))
    us.append(Unit('C11/E/GeneralizedLinearEstimator', u_glm_estimator, {}, wall_s=90))
    # datafits a user can hand to GeneralizedLinearEstimator: the objective the solver minimises on CSC input is the documented
    # one only if every sparse accessor agrees with the dense one and with the derivative of value() (C06 obligations re-used)
    for name in ('Huber', 'Poisson'):
        us.append(Unit('C11/K/GLE-datafit[%s]' % name, c06.u_datafit,
                       dict(name=name, n=2, p=2, pattern=c06.PATTERNS_32[0][:2]), wall_s=120))
    for weights, p0 in (([1.0, 0.0], 1), ([0.0, 1.0], 1), ([1.0, 2.0], 2)):
        us.append(Unit('C11/D/exact-on-orthogonal-design[weights=%s,p0=%d]' % (weights, p0), u_exact_on_orthogonal_design,
                       dict(weights=weights, p0=p0), wall_s=90, timeout_ms=8000))
    for pn in ('L0_5', 'L2_3', 'LogSumPenalty'):
        us.append(Unit('C11/K/reweighting-weights[%s]' % pn, u_reweight_weights, dict(pen_name=pn), wall_s=60, timeout_ms=8000))
    for pn in ('L0_5', 'LogSumPenalty'):
        us.append(Unit('C11/E/IterativeReweightedL1[%s]' % pn, u_reweighted_estimator, dict(pen_name=pn), wall_s=90,
                       timeout_ms=8000))
    return us


MANIFEST = dict(
    claimed=True,
    level_text=("Bounded symbolic model checking of estimator plumbing: the real fit() of Lasso, WeightedLasso, ElasticNet, "
                "MCPRegression (+weights), GroupLasso (all three group formats, both orders), SparseLogisticRegression "
                "(4 label sets), LinearSVC, MultiTaskLasso, CoxEstimator (both tie-handling methods, l1_ratio = 1 / in (0,1) / 0), SqrtLasso and GeneralizedLinearEstimator runs with symbolic "
                "constructor arguments and data up to the intercepted solver.solve; z3 decides for ALL coefficient vectors that "
                "the objective of the objects handed to the solver equals the documented objective with every argument meaning "
                "what the documentation says, that knobs and data reach the solver unchanged, that the start is the documented "
                "cold start and that the fitted attributes are the documented images of an arbitrary solver result "
                "(LinearSVC: design (yX)^T, box [0, C], coef_ = sum_i dual_i y_i x_i)."),
    level_note=("sklearn validators stubbed; BaseEstimator._validate_data compatibility stub (removed in the installed "
                "scikit-learn); BaseSolver.solve intercepted -- stationarity/optimality of what the real solver returns for "
                "the captured composition is C01 (C02 when convex); documented objectives are a transcribed reference model; "
                "n=3, p=2, T=2. IterativeReweightedL1: plumbing of 3 reweightings and the weight function of the penalties offering `derivative` (non-negative, even, non-increasing in |w|); that the weights majorise phi tightly (equality with phi') is not asserted because the code regularises them by 1e-12."),
)
