"""C17 -- reported diagnostics describe the run that happened (family D)."""
import itertools

from checks.common import Unit
from checks import driver as DR
from checks import steps as ST
from checks.steps import dh

EXPLANATION = ("On every control path of bounded real driver runs: the objective history has at most one entry per outer "
               "iteration and exactly max_iter entries when the budget is exhausted, its last entry equals the true objective "
               "(loss + penalty of the coefficients, intercept unpenalised) of the returned point recomputed from w alone, "
               "and on a tolerance stop the returned stop_crit dominates/equals the recomputed violation (C01 obligations).")
ASSUMPTIONS = ["exact reals; catalogue matrices; budgets max_iter<=2"]
BOUNDS = dict(quick="AndersonCD, GramCD, ProxNewton, GroupBCD; budgets (1,1),(2,1)", thorough="more compositions")


def units(tier):
    us = []
    q = tier == 'quick'
    runs = []
    for (df, pen), fi, b in itertools.product([('Quadratic', 'L1'), ('Quadratic', 'WeightedL1'), ('Quadratic', 'L1+')],
                                              (False, True), ((1, 1), (2, 1))):
        if q and dh((df, pen, fi, b)) % 2:
            continue
        runs.append(dict(solver='AndersonCD', datafit=df, penalty=pen, X='corr32', max_iter=b[0], max_epochs=b[1], p0=1,
                         fit_intercept=fi, ws_strategy='subdiff', warm=False))
    for greedy, warm in ((False, False), (True, True)):
        runs.append(dict(solver='GramCD', datafit='Quadratic', penalty='L1', X='corr32', max_iter=2, greedy_cd=greedy,
                         warm=warm, fit_intercept=False))
    for pen, fi in ((('L1', False), ('L1', True)) if q else (('L1', False), ('L1', True), ('WeightedL1', True))):
        runs.append(dict(solver='ProxNewton', datafit='Quadratic', penalty=pen, X='corr32', max_iter=1, max_pn_iter=1, p0=2,
                         fit_intercept=fi, ws_strategy='subdiff', warm=False))
    # history entry after an accepted extrapolation at the very last epoch (contract stub, see C03)
    for fi in ((False,) if q else (False, True)):
        runs.append(dict(solver='AndersonCD', datafit='Quadratic', penalty='L1', X='corr32', max_iter=1, max_epochs=1,
                         max_epochs_unpatched=7, acc_stub=1, p0=2, fit_intercept=fi, ws_strategy='subdiff', warm=True))
    runs.append(dict(solver='GramCD', datafit='Quadratic', penalty='L1', X='corr32', max_iter=1, max_iter_unpatched=7,
                     acc_stub=1, use_acc=True, greedy_cd=False, warm=True, fit_intercept=False))
    # working set smaller than (unpenalised features) + (support): 2 zero-weight features, warm start supported on the 2
    # penalised ones, p0 = 1 -- a coefficient outside the working set must survive an accepted extrapolation
    runs.append(dict(solver='AndersonCD', datafit='Quadratic', penalty='WeightedL1', X='gen34', max_iter=1, max_epochs=1,
                     max_epochs_unpatched=7, acc_stub=1, p0=1, fit_intercept=False, ws_strategy='subdiff', warm=True,
                     weights_concrete=[1.0, 2.0, 0.0, 0.0], w0_concrete=[2.0, -1.0, 0.0, 0.0], acc_catalogue=[1.0, 0.0],
                     keep_design=True, ylabels=[1.0, -2.0, 3.0]))
    for c in runs:
        cid = ','.join('%s=%s' % (k, c[k]) for k in sorted(c))
        us.append(Unit('C17/D/run[%s]' % cid, ST.u_run, dict(cfg=c, want=('history',)), wall_s=150, max_paths=5000,
                       timeout_ms=8000, patched=c['solver'] == 'ProxNewton' or bool(c.get('acc_stub'))))
    # returned stopping value on a tolerance stop right after an accepted extrapolation (GramCD keeps scores across
    # iterations): stop_crit must be the violation of the returned point
    from checks.c01 import u_cert
    for pen, Xn in ((('L1', 'tri22'),) if q else (('L1', 'tri22'), ('L1', 'corr32'), ('WeightedL1', 'corr32'))):
        c = dict(solver='GramCD', kind='acc', datafit='Quadratic', penalty=pen, X=Xn, max_iter=2, max_iter_unpatched=14,
                 acc_stub=1, use_acc=True, greedy_cd=False, warm=not q, fit_intercept=False)
        cid = ','.join('%s=%s' % (k, c[k]) for k in sorted(c))
        us.append(Unit('C17/D/stop_crit[%s]' % cid, u_cert, dict(cfg=c), wall_s=150, max_paths=5000, timeout_ms=8000,
                       patched=True))
    return us


MANIFEST = dict(
    claimed=True,
    level_text=("Bounded symbolic model checking of the diagnostics returned by the real drivers (AndersonCD, GramCD, "
                "ProxNewton): for all y, alpha, tol (and weights), on every feasible control path of runs with max_iter<=2, "
                "len(history) <= max_iter with equality when the budget is exhausted (no padding), and the last history entry "
                "equals the true objective of the returned point recomputed by the harness with the intercept unpenalised."),
    level_note=("Exact reals; catalogue design; ProxNewton with 1 PN step and inner loop constants patched to 2. The stop_crit "
                "== violation half of the property is discharged in C01 ('violation<=stop_crit' and certificate). GroupBCD, "
                "GroupProxNewton, MultiTaskBCD, FISTA, LBFGS histories and estimators' n_iter_ are not covered yet."),
)
