"""C17 -- reported diagnostics describe the run that happened (family D)."""
import itertools

from checks.common import Unit
from checks import driver as DR
from checks import steps as ST
from checks.steps import dh

EXPLANATION = ("On every control path of bounded real driver runs: the objective history has at most one entry per outer "
               "iteration and exactly max_iter entries when the budget is exhausted, its last entry equals the true objective "
               "(loss + penalty of the coefficients, intercept unpenalised) of the returned point recomputed from w alone, "
               "and on a tolerance stop the returned stop_crit dominates/equals the recomputed violation (C01 obligations).")
ASSUMPTIONS = ["exact reals; catalogue matrices; budgets max_iter<=2"]
BOUNDS = dict(quick="AndersonCD, GramCD, ProxNewton, GroupBCD; budgets (1,1),(2,1)", thorough="more compositions")


def units(tier):
    us = []
    q = tier == 'quick'
    runs = []
    for (df, pen), fi, b in itertools.product([('Quadratic', 'L1'), ('Quadratic', 'WeightedL1'), ('Quadratic', 'L1+')],
                                              (False, True), ((1, 1), (2, 1))):
        if q and dh((df, pen, fi, b)) % 2:
            continue
        runs.append(dict(solver='AndersonCD', datafit=df, penalty=pen, X='corr32', max_iter=b[0], max_epochs=b[1], p0=1,
                         fit_intercept=fi, ws_strategy='subdiff', warm=False))
    for greedy, warm in ((False, False), (True, True)):
        runs.append(dict(solver='GramCD', datafit='Quadratic', penalty='L1', X='corr32', max_iter=2, greedy_cd=greedy,
                         warm=warm, fit_intercept=False))
    for pen, fi in ((('L1', False), ('L1', True)) if q else (('L1', False), ('L1', True), ('WeightedL1', True))):
        runs.append(dict(solver='ProxNewton', datafit='Quadratic', penalty=pen, X='corr32', max_iter=1, max_pn_iter=1, p0=2,
                         fit_intercept=fi, ws_strategy='subdiff', warm=False))
    # GroupBCD (singleton-group layouts keep the norms piecewise linear): no zero padding, last entry == objective
    for lay, fi, b in itertools.product(['single', 'rev'], (False, True), ((1, 1), (2, 1))):
        if q and dh(('grp', lay, fi, b)) % 2:
            continue
        runs.append(dict(solver='GroupBCD', datafit='QuadraticGroup', penalty='WeightedGroupL2', X='corr32', layout=lay,
                         max_iter=b[0], max_epochs=b[1], p0=1, fit_intercept=fi, ws_strategy='subdiff', warm=False,
                         wg_concrete=[1.0, 0.5]))
    # history entry after an accepted extrapolation at the very last epoch (contract stub, see C03)
    for fi in ((False,) if q else (False, True)):
        runs.append(dict(solver='AndersonCD', datafit='Quadratic', penalty='L1', X='corr32', max_iter=1, max_epochs=1,
                         max_epochs_unpatched=7, acc_stub=1, p0=2, fit_intercept=fi, ws_strategy='subdiff', warm=True))
    runs.append(dict(solver='GramCD', datafit='Quadratic', penalty='L1', X='corr32', max_iter=1, max_iter_unpatched=7,
                     acc_stub=1, use_acc=True, greedy_cd=False, warm=True, fit_intercept=False))
    # working set smaller than (unpenalised features) + (support): 2 zero-weight features, warm start supported on the 2
    # penalised ones, p0 = 1 -- a coefficient outside the working set must survive an accepted extrapolation
    runs.append(dict(solver='AndersonCD', datafit='Quadratic', penalty='WeightedL1', X='gen34', max_iter=1, max_epochs=1,
                     max_epochs_unpatched=7, acc_stub=1, p0=1, fit_intercept=False, ws_strategy='subdiff', warm=True,
                     weights_concrete=[1.0, 2.0, 0.0, 0.0], w0_concrete=[2.0, -1.0, 0.0, 0.0], acc_catalogue=[1.0, 0.0],
                     keep_design=True, ylabels=[1.0, -2.0, 3.0]))
    for c in runs:
        cid = ','.join('%s=%s' % (k, c[k]) for k in sorted(c))
        us.append(Unit('C17/D/run[%s]' % cid, ST.u_run, dict(cfg=c, want=('history',)), wall_s=150, max_paths=5000,
                       timeout_ms=8000, patched=c['solver'] == 'ProxNewton' or bool(c.get('acc_stub'))))
    # MultiTaskBCD with one task: history length, last entry == objective of the returned W (intercept row unpenalised), monotone
    for fi, sp, b in itertools.product((False, True), (False, True), ((1, 1), (2, 1), (2, 2))):
        if q and (b == (2, 2) or (sp and b == (1, 1))):
            continue
        us.append(Unit('C17/D/MultiTaskBCD[T=1,intercept=%s,sparse=%s,budget=%s]' % (fi, sp, b), ST.u_multitask_run,
                       dict(X='corr32', fit_intercept=fi, sparse=sp, warm=False, budget=b, want=('history',)), wall_s=90,
                       timeout_ms=8000))
    # the history is built from datafit.value() / penalty.value(): their faithfulness to the documented formulas is C06 / C07;
    # the value() obligations of the datafits used by the regression estimators are re-used here (all hyper-parameters symbolic)
    from checks import c06
    for name in ('Huber', 'Quadratic', 'WeightedQuadratic'):
        us.append(Unit('C17/K/value==documented[%s]' % name, c06.u_datafit,
                       dict(name=name, n=2, p=2, pattern=c06.PATTERNS_32[0][:2]), wall_s=120))
    # two tasks with an intercept: the returned stopping value bounds the violation of the returned point (largest absolute
    # per-task intercept gradient), for catalogue targets of both sign patterns
    for sp, (tag, Yc) in itertools.product((False, True), (('means(0,-3)', [[0.0, -2.0], [1.0, -5.0], [-1.0, -2.0]]),
                                                          ('means(0,+3)', [[0.0, 2.0], [1.0, 5.0], [-1.0, 2.0]]))):
        us.append(Unit('C17/D/MultiTaskBCD-stop_crit[T=2,intercept=True,sparse=%s,Y=%s]' % (sp, tag), ST.u_multitask_run,
                       dict(X='corr32', fit_intercept=True, sparse=sp, warm=False, budget=(1, 0), T=2, want=('certificate',),
                            Y_concrete=Yc), wall_s=90, timeout_ms=8000))
    # returned stopping value on a tolerance stop right after an accepted extrapolation (GramCD keeps scores across
    # iterations): stop_crit must be the violation of the returned point
    from checks.c01 import u_cert
    for pen, Xn in ((('L1', 'tri22'),) if q else (('L1', 'tri22'), ('L1', 'corr32'), ('WeightedL1', 'corr32'))):
        c = dict(solver='GramCD', kind='acc', datafit='Quadratic', penalty=pen, X=Xn, max_iter=2, max_iter_unpatched=14,
                 acc_stub=1, use_acc=True, greedy_cd=False, warm=not q, fit_intercept=False)
        cid = ','.join('%s=%s' % (k, c[k]) for k in sorted(c))
        us.append(Unit('C17/D/stop_crit[%s]' % cid, u_cert, dict(cfg=c), wall_s=150, max_paths=5000, timeout_ms=8000,
                       patched=True))
    return us


MANIFEST = dict(
    claimed=True,
    level_text=("Bounded symbolic model checking of the diagnostics returned by the real drivers (AndersonCD, GramCD, "
                "ProxNewton, GroupBCD): for all y, alpha, tol (and weights), on every feasible control path of runs with max_iter<=2, "
                "len(history) <= max_iter with equality when the budget is exhausted (no padding), and the last history entry "
                "equals the true objective of the returned point recomputed by the harness with the intercept unpenalised."),
    level_note=("Exact reals; catalogue design; ProxNewton with 1 PN step and inner loop constants patched to 2. The stop_crit "
                "== violation half of the property is discharged in C01 ('violation<=stop_crit' and certificate). GroupBCD "
                "histories on singleton-group layouts, MultiTaskBCD histories with one task. GroupProxNewton, FISTA, LBFGS "
                "histories and estimators' n_iter_ are not covered."),
)
