"""C14 -- general components reduce to the simpler ones they generalise (families K, S)."""
import itertools
import numpy as np

from checks.common import Unit, P, D, X_of
from vf.sym import _isinf

EXPLANATION = ("Paired-configuration identities on the real code of both sides with all data symbolic: the general component "
               "configured to coincide with the simple one returns term-for-term equal values, proximal points, scores, "
               "gradients, Lipschitz constants and epoch results (equalities decided by z3).")
ASSUMPTIONS = ["exact reals; vectors of length 2 (3 for SLOPE), n<=3; alpha>0, step>0",
               "large-gamma / large-delta limits are checked in their exact form (agreement on the region |w| <= alpha*gamma, "
               "|r_i| < delta) rather than as limits"]
BOUNDS = dict(quick="p=2, n<=3, T=1, SLOPE n<=2", thorough="p<=3, SLOPE n=3, more designs")


def _eqv(h, a, b):
    """equality that also accepts both sides being +inf"""
    if _isinf(a) or _isinf(b):
        return bool(_isinf(a) and _isinf(b) and a == b)
    return h.eq(a, b)


def u_weighted_vs_plain(h, kind, positive=False, j=0, ws=(1, 0)):
    Pm = P()
    al = h.real('alpha')
    s = h.real('step')
    h.assume(al > 0, s > 0)
    p = 2
    ones = h.const(np.ones(p))
    if kind == 'L1':
        a = h.penalty(Pm.WeightedL1, alpha=al, weights=ones, positive=positive)
        b = h.penalty(Pm.L1, alpha=al, positive=positive)
    elif kind == 'MCP':
        g = h.real('gamma')
        h.assume(g > s)
        a = h.penalty(Pm.WeightedMCPenalty, alpha=al, gamma=g, weights=ones, positive=positive)
        b = h.penalty(Pm.MCPenalty, alpha=al, gamma=g, positive=positive)
    elif kind == 'EN':
        a = h.penalty(Pm.L1_plus_L2, alpha=al, l1_ratio=h.constant(1.0), positive=positive)
        b = h.penalty(Pm.L1, alpha=al, positive=positive)
    w = h.vec('w', p)
    x = h.real('x')
    g_ = h.vec('g', len(ws))
    ws_a = np.array(ws, dtype=np.int64)
    va, vb = a.value(w), b.value(w)
    if not _isinf(va):
        h.observe('value', va)
    h.ensure('value', _eqv(h, va, vb))
    pa, pb = a.prox_1d(x, s, j), b.prox_1d(x, s, j)
    h.observe('prox', pa)
    h.ensure('prox_1d', h.eq(pa, pb))
    sa, sb = a.subdiff_distance(w, g_, ws_a), b.subdiff_distance(w, g_, ws_a)
    for k in range(len(ws)):
        h.ensure('subdiff_distance[%d]' % k, _eqv(h, sa[k], sb[k]))
    if kind != 'SCAD':
        g0 = h.vec('g0_', p)
        h.ensure('alpha_max', h.eq(a.alpha_max(g0), b.alpha_max(g0)))
    ma, mb = a.generalized_support(w), b.generalized_support(w)
    h.ensure('generalized_support', all(bool(ma[k]) == bool(mb[k]) for k in range(p)))


def u_singleton_groups(h, positive=False, order=(1, 0)):
    """WeightedGroupL2 with singleton groups == WeightedL1 (value, prox, score)"""
    Pm = P()
    al = h.real('alpha')
    s = h.real('step')
    h.assume(al > 0, s > 0)
    p = 2
    wt = h.vec('wt', p)
    for k in range(p):
        h.assume(wt[k] >= 0)
    layout = [[order[0]], [order[1]]]
    grp_ptr = np.array([0, 1, 2], dtype=np.int32)
    grp_idx = np.array(order, dtype=np.int32)
    # group g holds feature order[g] -> its weight is wt[order[g]]
    wg = h.arr([wt[order[0]], wt[order[1]]])
    a = h.penalty(Pm.WeightedGroupL2, alpha=al, weights=wg, grp_ptr=grp_ptr, grp_indices=grp_idx, positive=positive)
    b = h.penalty(Pm.WeightedL1, alpha=al, weights=wt, positive=positive)
    w = h.vec('w', p)
    va, vb = a.value(w), b.value(w)
    if not _isinf(va):
        h.observe('value', va)
    h.ensure('value', _eqv(h, va, vb))
    x = h.real('x')
    for g in range(2):
        pa = a.prox_1group(h.arr([x]), s, g)
        pb = b.prox_1d(x, s, order[g])
        h.ensure('prox[%d]' % g, h.eq(pa[0], pb))
    gr = h.vec('g', p)
    # groups in order (0, 1) -> features (order[0], order[1]); gradient stacked per group
    sa = a.subdiff_distance(w, h.arr([gr[order[0]], gr[order[1]]]), np.array([0, 1], dtype=np.int64))
    sb = b.subdiff_distance(w, h.arr([gr[order[0]], gr[order[1]]]), np.array(order, dtype=np.int64))
    for g in range(2):
        h.ensure('score[%d]' % g, _eqv(h, sa[g], sb[g]))


def u_sparse_group_limits(h, which):
    """WeightedL1GroupL2 with zero group weights == WeightedL1; with zero feature weights == WeightedGroupL2"""
    Pm = P()
    al = h.real('alpha')
    s = h.real('step')
    h.assume(al > 0, s > 0)
    p = 2
    layout = [[0, 1]]
    grp_ptr = np.array([0, 2], dtype=np.int32)
    grp_idx = np.array([0, 1], dtype=np.int32)
    w = h.vec('w', p)
    x = h.vec('x', p)
    if which == 'zero-group-weights':
        wf = h.vec('wf', p)
        for k in range(p):
            h.assume(wf[k] >= 0)
        a = h.penalty(Pm.WeightedL1GroupL2, alpha=al, weights_groups=h.const(np.zeros(1)), weights_features=wf,
                      grp_ptr=grp_ptr, grp_indices=grp_idx)
        b = h.penalty(Pm.WeightedL1, alpha=al, weights=wf)
        h.ensure('value', h.eq(a.value(w), b.value(w)))
        pa = a.prox_1group(x, s, 0)
        for k in range(p):
            h.observe('prox%d' % k, pa[k])
            h.ensure('prox[%d]' % k, h.eq(pa[k], b.prox_1d(x[k], s, k)))
    else:
        wg = h.vec('wg', 1)
        h.assume(wg[0] >= 0)
        a = h.penalty(Pm.WeightedL1GroupL2, alpha=al, weights_groups=wg, weights_features=h.const(np.zeros(p)),
                      grp_ptr=grp_ptr, grp_indices=grp_idx)
        b = h.penalty(Pm.WeightedGroupL2, alpha=al, weights=wg, grp_ptr=grp_ptr, grp_indices=grp_idx)
        h.ensure('value', h.eq(a.value(w), b.value(w)))
        pa, pb = a.prox_1group(x, s, 0), b.prox_1group(x, s, 0)
        for k in range(p):
            h.observe('prox%d' % k, pa[k])
            h.ensure('prox[%d]' % k, h.eq(pa[k], pb[k]))


def u_sgl_singletons(h, order):
    """WeightedL1GroupL2 with singleton groups listed in any order and zero group weights == WeightedL1"""
    Pm = P()
    al = h.real('alpha')
    s = h.real('step')
    h.assume(al > 0, s > 0)
    p = len(order)
    wf = h.vec('wf', p)
    for k in range(p):
        h.assume(wf[k] >= 0)
    gp = np.arange(p + 1, dtype=np.int32)
    gi = np.array(order, dtype=np.int32)
    a = h.penalty(Pm.WeightedL1GroupL2, alpha=al, weights_groups=h.const(np.zeros(p)), weights_features=wf,
                  grp_ptr=gp, grp_indices=gi)
    b = h.penalty(Pm.WeightedL1, alpha=al, weights=wf)
    w = h.vec('w', p)
    va = a.value(w)
    h.observe('value', va)
    h.ensure('value', h.eq(va, b.value(w)))
    x = h.real('x')
    for g in range(p):
        h.ensure('prox[group %d = feature %d]' % (g, order[g]),
                 h.eq(a.prox_1group(h.arr([x]), s, g)[0], b.prox_1d(x, s, order[g])))


def u_one_task(h):
    """L2_1 with a single task == L1; QuadraticMultiTask with one task == Quadratic"""
    Pm, Dm = P(), D()
    al = h.real('alpha')
    s = h.real('step')
    h.assume(al > 0, s > 0)
    a = h.penalty(Pm.L2_1, alpha=al)
    b = h.penalty(Pm.L1, alpha=al)
    w = h.vec('w', 2)
    W = h.arr([[w[0]], [w[1]]])
    va = a.value(W)
    h.observe('value', va)
    h.ensure('value', h.eq(va, b.value(w)))
    x = h.real('x')
    h.ensure('prox', h.eq(a.prox_1feat(h.arr([x]), s, 0)[0], b.prox_1d(x, s, 0)))
    g = h.vec('g', 2)
    G = h.arr([[g[0]], [g[1]]])
    ws = np.array([1, 0], dtype=np.int64)
    sa = a.subdiff_distance(W, G, ws)
    sb = b.subdiff_distance(w, g, ws)
    for k in range(2):
        h.ensure('score[%d]' % k, h.eq(sa[k], sb[k]))
    # datafit
    n, p = 3, 2
    X = h.mat('X', n, p)
    y = h.vec('y', n)
    Xw = h.vec('Xw', n)
    dm = h.datafit(Dm.QuadraticMultiTask)
    dq = h.datafit(Dm.Quadratic)
    Y = h.arr([[y[i]] for i in range(n)])
    XW = h.arr([[Xw[i]] for i in range(n)])
    dm.initialize(X, Y)
    dq.initialize(X, y)
    h.ensure('datafit-value', h.eq(dm.value(Y, W, XW), dq.value(y, w, Xw)))
    for j in range(p):
        h.ensure('datafit-gradient[%d]' % j, h.eq(dm.gradient_j(X, Y, W, XW, j)[0], dq.gradient_scalar(X, y, w, Xw, j)))
        h.ensure('lipschitz[%d]' % j, h.eq(dm.get_lipschitz(X, Y)[j], dq.get_lipschitz(X, y)[j]))
    h.ensure('intercept-step', h.eq(dm.intercept_update_step(Y, XW)[0], dq.intercept_update_step(y, Xw)))


def u_slope_constant(h, n=2):
    from skglm.penalties import SLOPE
    Pm = P()
    al = h.real('alpha')
    s = h.real('step')
    h.assume(al > 0, s > 0)
    a = h.penalty(SLOPE, alphas=h.arr([al] * n))
    b = h.penalty(Pm.L1, alpha=al)
    w = h.vec('w', n)
    va = a.value(w)
    h.observe('value', va)
    h.ensure('value', h.eq(va, b.value(w)))
    x = h.vec('x', n)
    pa = a.prox_vec(x, s)
    for k in range(n):
        h.ensure('prox[%d]' % k, h.eq(pa[k], b.prox_1d(x[k], s, k)))


def u_mcp_scad_regions(h, which):
    """exact form of the 'very large gamma' statements: on |w| <= alpha*gamma MCP is alpha|w| - w^2/(2 gamma) and its
    prox is the rescaled soft-threshold; Huber equals the quadratic loss while every residual is below delta"""
    Pm, Dm = P(), D()
    if which == 'MCP':
        from skglm.utils.prox_funcs import ST
        al, g, s = h.real('alpha'), h.real('gamma'), h.real('step')
        h.assume(al > 0, s > 0, g > s)
        a = h.penalty(Pm.MCPenalty, alpha=al, gamma=g)
        w = h.real('w')
        h.assume(abs(w) <= al * g)
        va = a.value(h.arr([w]))
        h.observe('value', va)
        h.ensure('value-on-inner-region', h.eq(va, al * abs(w) - w * w / (2 * g)))
        x = h.real('x')
        h.assume(abs(x) <= al * g)
        pr = a.prox_1d(x, s, 0)
        h.ensure('prox-is-rescaled-ST', h.eq(pr * (1 - s / g), ST(x, al * s)))
    else:
        n, p = 2, 2
        dl = h.real('delta')
        h.assume(dl > 0)
        hub = h.datafit(Dm.Huber, delta=dl)
        qd = h.datafit(Dm.Quadratic)
        X = h.mat('X', n, p)
        y, Xw, w = h.vec('y', n), h.vec('Xw', n), h.vec('w', p)
        for i in range(n):
            h.assume(abs(y[i] - Xw[i]) < dl)
        hub.initialize(X, y) if hasattr(hub, 'initialize') else None
        qd.initialize(X, y)
        va = hub.value(y, w, Xw)
        h.observe('value', va)
        h.ensure('value', h.eq(va, qd.value(y, w, Xw)))
        for j in range(p):
            h.ensure('gradient[%d]' % j, h.eq(hub.gradient_scalar(X, y, w, Xw, j), qd.gradient_scalar(X, y, w, Xw, j)))
        h.ensure('intercept', h.eq(hub.intercept_update_step(y, Xw), qd.intercept_update_step(y, Xw)))


def u_sample_weights(h, which):
    Dm = D()
    n, p = (3, 2) if which == 'unit' else (2, 2)
    X = h.mat('X', n, p)
    y, Xw, w = h.vec('y', n), h.vec('Xw', n), h.vec('w', p)
    qd = h.datafit(Dm.Quadratic)
    if which == 'unit':
        wq = h.datafit(Dm.WeightedQuadratic, sample_weights=h.const(np.ones(n)))
        wq.initialize(X, y)
        qd.initialize(X, y)
        va = wq.value(y, w, Xw)
        h.observe('value', va)
        h.ensure('value', h.eq(va, qd.value(y, w, Xw)))
        for j in range(p):
            h.ensure('gradient[%d]' % j, h.eq(wq.gradient_scalar(X, y, w, Xw, j), qd.gradient_scalar(X, y, w, Xw, j)))
            h.ensure('lipschitz[%d]' % j, h.eq(wq.get_lipschitz(X, y)[j], qd.get_lipschitz(X, y)[j]))
        h.ensure('intercept', h.eq(wq.intercept_update_step(y, Xw), qd.intercept_update_step(y, Xw)))
        h.ensure('global-lipschitz', h.eq(wq.get_global_lipschitz(X, y), qd.get_global_lipschitz(X, y)))
    else:
        # integer weights (2, 1) == replicating row 0 twice
        wq = h.datafit(Dm.WeightedQuadratic, sample_weights=h.const(np.array([2.0, 1.0])))
        Xr = h.arr([[X[0, j] for j in range(p)], [X[0, j] for j in range(p)], [X[1, j] for j in range(p)]])
        yr = h.arr([y[0], y[0], y[1]])
        Xwr = h.arr([Xw[0], Xw[0], Xw[1]])
        wq.initialize(X, y)
        qd.initialize(Xr, yr)
        va = wq.value(y, w, Xw)
        h.observe('value', va)
        h.ensure('value', h.eq(va, qd.value(yr, w, Xwr)))
        for j in range(p):
            h.ensure('gradient[%d]' % j, h.eq(wq.gradient_scalar(X, y, w, Xw, j), qd.gradient_scalar(Xr, yr, w, Xwr, j)))
            h.ensure('lipschitz[%d]' % j, h.eq(wq.get_lipschitz(X, y)[j], qd.get_lipschitz(Xr, yr)[j]))
        h.ensure('intercept', h.eq(wq.intercept_update_step(y, Xw), qd.intercept_update_step(yr, Xwr)))
        # ... and on CSC storage (every sparse accessor of the weighted datafit against the replicated plain one)
        Xs, Xrs = h.csc(X), h.csc(Xr)
        wqs, qds = wq, qd
        wqs.initialize_sparse(Xs.data, Xs.indptr, Xs.indices, y)
        qds.initialize_sparse(Xrs.data, Xrs.indptr, Xrs.indices, yr)
        fa = wqs.full_grad_sparse(Xs.data, Xs.indptr, Xs.indices, y, Xw)
        fb = qds.full_grad_sparse(Xrs.data, Xrs.indptr, Xrs.indices, yr, Xwr)
        la = wqs.get_lipschitz_sparse(Xs.data, Xs.indptr, Xs.indices, y)
        lb = qds.get_lipschitz_sparse(Xrs.data, Xrs.indptr, Xrs.indices, yr)
        for j in range(p):
            h.ensure('gradient_scalar_sparse[%d]' % j,
                     h.eq(wqs.gradient_scalar_sparse(Xs.data, Xs.indptr, Xs.indices, y, Xw, j),
                          qds.gradient_scalar_sparse(Xrs.data, Xrs.indptr, Xrs.indices, yr, Xwr, j)))
            h.ensure('full_grad_sparse[%d]' % j, h.eq(fa[j], fb[j]))
            h.ensure('lipschitz_sparse[%d]' % j, h.eq(la[j], lb[j]))


def u_path_vs_fit_components(h, kind, positive, weighted):
    """estimator.path(...) and estimator.fit(...) are two entry points to the same model: with BaseSolver.solve intercepted,
    the datafit / penalty objects that path() hands to the solver have the class and every hyper-parameter (alpha aside,
    which path() sets from its grid) of the ones fit() builds, and the solver has the same knobs"""
    import skglm
    from checks import estim as ES
    import skglm.solvers.anderson_cd as acd
    n, p = 3, 2
    X = h.mat('X', n, p)
    y = h.vec('y', n)
    A = h.real('alpha')
    h.assume(A > 0)
    wts = None
    if weighted:
        wts = h.vec('wt', p)
        h.assume(wts[0] >= 0, wts[1] >= 0)
    if kind == 'Lasso':
        est = skglm.Lasso(alpha=A, positive=positive, fit_intercept=False)
    elif kind == 'WeightedLasso':
        est = skglm.WeightedLasso(alpha=A, weights=wts, positive=positive, fit_intercept=False)
    elif kind == 'ElasticNet':
        est = skglm.ElasticNet(alpha=A, l1_ratio=h.constant(0.5), positive=positive, fit_intercept=False)
    else:
        est = skglm.MCPRegression(alpha=A, gamma=h.constant(3.0), weights=wts, positive=positive, fit_intercept=False)
    calls = []

    def result(k, call):
        calls.append(call)
        return ES.sym_result(h, p, tag='c%d_' % k)
    with ES.sklearn_stubs(h):
        with ES.intercept_solve(h, result):
            ES.compat(est).fit(X, y)
            est.path(X, y, alphas=h.arr([A]) if h.mode == 'sym' else np.array([float(A)]))
    h.ensure('two-solves', len(calls) == 2)
    if len(calls) < 2:
        return
    fa, pa = calls[0], calls[1]

    def attrs(o):
        try:
            d = dict(vars(o))
        except TypeError:            # jitted replay: a jitclass instance exposes its fields through its numba type
            d = {k: getattr(o, k) for k in o._numba_type_.struct.keys()}
        return {k: v for k, v in d.items() if not k.startswith('_')}
    for role in ('datafit', 'penalty'):
        a, b = fa[role], pa[role]
        h.ensure('%s-class' % role, type(a).__name__ == type(b).__name__)
        da, db = attrs(a), attrs(b)
        ok = h.true() if set(da) == set(db) else h.false()
        for k in da:
            if k not in db:
                continue
            va, vb = da[k], db[k]
            if isinstance(va, np.ndarray) or isinstance(vb, np.ndarray):
                la, lb = list(np.asarray(va, dtype=object).ravel()), list(np.asarray(vb, dtype=object).ravel())
                ok = h.and_(ok, h.true() if len(la) == len(lb) else h.false())
                for x1, x2 in zip(la, lb):
                    ok = h.and_(ok, h.eq(x1, x2))
            elif isinstance(va, (bool, str, type(None))) or isinstance(vb, (bool, str, type(None))):
                ok = h.and_(ok, h.true() if va == vb else h.false())
            else:
                ok = h.and_(ok, h.eq(va, vb))
        h.ensure('%s-hyper-parameters' % role, ok)
    sa, sb = fa['solver'], pa['solver']
    same = all(getattr(sa, k) == getattr(sb, k) for k in ('fit_intercept', 'ws_strategy') if hasattr(sa, k))
    h.ensure('solver-knobs', type(sa).__name__ == type(sb).__name__ and same)
    h.observe('x', A)


def u_efron_vs_breslow(h, tm, s):
    Dm = D()
    n = len(tm)
    y = h.const(np.column_stack([np.array(tm, dtype=float), np.array(s, dtype=float)]))
    a = h.datafit(Dm.Cox, use_efron=True)
    b = h.datafit(Dm.Cox, use_efron=False)
    Xd = h.const(np.zeros((n, 1)))
    a.initialize(Xd, y)
    b.initialize(Xd, y)
    Xw = h.vec('Xw', n)
    w = h.vec('w', 1)
    va = a.value(y, w, Xw)
    h.observe('value', va)
    h.ensure('value', h.eq(va, b.value(y, w, Xw)))
    ga, gb = a.raw_grad(y, Xw), b.raw_grad(y, Xw)
    ha, hb = a.raw_hessian(y, Xw), b.raw_hessian(y, Xw)
    for i in range(n):
        h.ensure('raw_grad[%d]' % i, h.eq(ga[i], gb[i]))
        h.ensure('raw_hessian[%d]' % i, h.eq(ha[i], hb[i]))


def u_efron_vs_breslow_symtimes(h, s):
    """as u_efron_vs_breslow, but the occurrence times are SYMBOLIC and only assumed pairwise distinct (any order, any
    spacing, any offset): every place where the datafit decides "same time" is exercised for all distinct times, not for
    the integer catalogue only"""
    Dm = D()
    n = len(s)
    tm = h.vec('t', n)
    for i in range(n):
        for k in range(i):
            h.assume(tm[i] != tm[k])
    y = h.arr([[tm[i], float(s[i])] for i in range(n)])
    a = h.datafit(Dm.Cox, use_efron=True)
    b = h.datafit(Dm.Cox, use_efron=False)
    Xd = h.const(np.zeros((n, 1)))
    a.initialize(Xd, y)
    b.initialize(Xd, y)
    Xw = h.vec('Xw', n)
    w = h.vec('w', 1)
    va = a.value(y, w, Xw)
    h.observe('value', va)
    h.ensure('value', h.eq(va, b.value(y, w, Xw)))
    ga, gb = a.raw_grad(y, Xw), b.raw_grad(y, Xw)
    for i in range(n):
        h.ensure('raw_grad[%d]' % i, h.eq(ga[i], gb[i]))


def u_group_vs_plain_datafit(h, which, layout):
    Dm = D()
    n, p = 3, 2
    grp_ptr = np.cumsum([0] + [len(g) for g in layout]).astype(np.int32)
    grp_idx = np.array([i for g in layout for i in g], dtype=np.int32)
    X = h.mat('X', n, p)
    Xw, w = h.vec('Xw', n), h.vec('w', p)
    if which == 'Quadratic':
        y = h.vec('y', n)
        a = h.datafit(Dm.QuadraticGroup, grp_ptr=grp_ptr, grp_indices=grp_idx)
        b = h.datafit(Dm.Quadratic)
        b.initialize(X, y)
    else:
        y = h.const(np.array([1.0, -1.0, 1.0]))
        a = h.datafit(Dm.LogisticGroup, grp_ptr=grp_ptr, grp_indices=grp_idx)
        b = h.datafit(Dm.Logistic)
    va = a.value(y, w, Xw)
    h.observe('value', va)
    h.ensure('value', h.eq(va, b.value(y, w, Xw)))
    for g, ind in enumerate(layout):
        gg = a.gradient_g(X, y, w, Xw, g)
        for k, j in enumerate(ind):
            h.ensure('gradient[%d][%d]' % (g, k), h.eq(gg[k], b.gradient_scalar(X, y, w, Xw, j)))
    h.ensure('intercept', h.eq(a.intercept_update_step(y, Xw), b.intercept_update_step(y, Xw)))
    if all(len(g) == 1 for g in layout):
        La, Lb = a.get_lipschitz(X, y), b.get_lipschitz(X, y)
        for g, ind in enumerate(layout):
            h.ensure('singleton-lipschitz[%d]' % g, h.eq(La[g], Lb[ind[0]]))


def u_gram_vs_cd_epoch(h, penalty, X):
    """cyclic _gram_cd_epoch == _cd_epoch on the quadratic datafit from a consistent state"""
    from skglm.solvers.gram_cd import _gram_cd_epoch
    from skglm.solvers.anderson_cd import _cd_epoch
    from checks.common import mk_sep_penalty
    Dm = D()
    Xc = X_of(X)
    n, p = Xc.shape
    pen, meta = mk_sep_penalty(h, penalty, p=p, concrete_hyper=True)
    y = h.vec('y', n)
    w = h.vec('w', p)
    G = Xc.T @ Xc / n
    q = [sum(Xc[i, j] * y[i] for i in range(n)) / n for j in range(p)]
    grad0 = [sum(G[j, k] * w[k] for k in range(p)) - q[j] for j in range(p)]
    w1 = h.arr([w[k] for k in range(p)]) if h.mode == 'sym' else np.array(w, dtype=float)
    g1 = h.arr(grad0) if h.mode == 'sym' else np.array(grad0, dtype=float)
    _gram_cd_epoch(h.const(G), w1, g1, pen, False)
    df = h.datafit(Dm.Quadratic)
    Xd = h.const(Xc)
    df.initialize(Xd, y)
    lc = df.get_lipschitz(Xd, y)
    w2 = h.arr([w[k] for k in range(p)]) if h.mode == 'sym' else np.array(w, dtype=float)
    Xw2 = h.arr([sum(Xc[i, j] * w[j] for j in range(p)) for i in range(n)]) if h.mode == 'sym' else Xc @ np.asarray(w, dtype=float)
    _cd_epoch(Xd, y, w2, Xw2, lc, df, pen, np.arange(p))
    for k in range(p):
        h.observe('w%d' % k, w1[k])
        h.ensure('same-iterate[%d]' % k, h.eq(w1[k], w2[k]))


def units(tier):
    us = []
    q = tier == 'quick'
    for kind in ('L1', 'MCP', 'EN'):
        for pos in (False, True):
            for j, ws in ((0, (1, 0)), (1, (1,))):
                us.append(Unit('C14/K/weighted-vs-plain[%s,positive=%s,j=%d]' % (kind, pos, j), u_weighted_vs_plain,
                               dict(kind=kind, positive=pos, j=j, ws=ws), wall_s=60))
    for pos in (False, True):
        for order in ((1, 0), (0, 1)):
            us.append(Unit('C14/K/singleton-groups[positive=%s,order=%s]' % (pos, order), u_singleton_groups,
                           dict(positive=pos, order=order), wall_s=60))
    for which in ('zero-group-weights', 'zero-feature-weights'):
        us.append(Unit('C14/K/sparse-group-lasso[%s]' % which, u_sparse_group_limits, dict(which=which), wall_s=60))
    for order in ((1, 0), (0, 1), (2, 0, 1)):
        us.append(Unit('C14/K/sparse-group-lasso-singletons[order=%s]' % (order,), u_sgl_singletons, dict(order=list(order)),
                       wall_s=60))
    us.append(Unit('C14/K/one-task', u_one_task, {}, wall_s=60))
    # Gram solver vs coordinate descent with acceleration on: both stop on a valid certificate of the same problem
    from checks.c01 import u_cert
    cacc = dict(solver='GramCD', kind='acc', datafit='Quadratic', penalty='L1', X='tri22', max_iter=3, max_iter_unpatched=21,
                acc_stub=1, use_acc=True, greedy_cd=False, warm=False, fit_intercept=False)
    us.append(Unit('C14/D/gram-accelerated-certificate', u_cert, dict(cfg=cacc), wall_s=150, timeout_ms=8000, patched=True))
    for n in ((1, 2) if q else (1, 2, 3)):
        us.append(Unit('C14/K/slope-constant[n=%d]' % n, u_slope_constant, dict(n=n), wall_s=120))
    for which in ('MCP', 'Huber'):
        us.append(Unit('C14/K/region[%s]' % which, u_mcp_scad_regions, dict(which=which), wall_s=60))
    for which in ('unit', 'integer'):
        us.append(Unit('C14/K/sample-weights[%s]' % which, u_sample_weights, dict(which=which), wall_s=60))
    for kind, weighted in (('Lasso', False), ('WeightedLasso', True), ('ElasticNet', False), ('MCPRegression', False),
                           ('MCPRegression', True)):
        for pos in (False, True):
            us.append(Unit('C14/E/path-vs-fit-components[%s,weights=%s,positive=%s]' % (kind, weighted, pos),
                           u_path_vs_fit_components, dict(kind=kind, positive=pos, weighted=weighted), wall_s=60))
    for tm in ([0, 1], [1, 0], [0, 1, 2], [2, 0, 1], [1, 2, 0]):
        for s in itertools.product([0, 1], repeat=len(tm)):
            if not any(s) or (q and len(tm) == 3 and sum(s) == 1):
                continue
            us.append(Unit('C14/K/efron-vs-breslow[tm=%s,s=%s]' % (''.join(map(str, tm)), ''.join(map(str, s))),
                           u_efron_vs_breslow, dict(tm=tm, s=list(s)), wall_s=60))
    for sv in ([1, 1], [1, 0], [0, 1]) + (() if q else ([1, 1, 1], [1, 0, 1])):
        us.append(Unit('C14/K/efron-vs-breslow[symbolic distinct times,s=%s]' % ''.join(map(str, sv)),
                       u_efron_vs_breslow_symtimes, dict(s=list(sv)), wall_s=90))
    for which in ('Quadratic', 'Logistic'):
        for li, lay in enumerate([[[0, 1]], [[1], [0]]]):
            us.append(Unit('C14/K/group-datafit-vs-plain[%s,layout=%d]' % (which, li), u_group_vs_plain_datafit,
                           dict(which=which, layout=lay), wall_s=60))
    for pen, X in itertools.product(['L1', 'L1+', 'WeightedL1', 'MCPenalty'] + ([] if q else ['L1_plus_L2', 'IndicatorBox']),
                                    ['corr32', 'gen32']):
        us.append(Unit('C14/S/gram-epoch-vs-cd-epoch[%s,X=%s]' % (pen, X), u_gram_vs_cd_epoch, dict(penalty=pen, X=X),
                       wall_s=90, timeout_ms=8000))
    return us


MANIFEST = dict(
    claimed=True,
    level_text=("Bounded symbolic model checking of paired-configuration identities: for all data and hyper-parameters the "
                "general component configured as the special case is term-for-term equal to the simple component's real code "
                "(value, prox, score, alpha_max, support, gradients, Lipschitz constants, intercept step): unit weights, "
                "l1_ratio=1, singleton groups (both orders), sparse-group limits, one task, constant SLOPE, MCP/Huber on "
                "their inner regions, unit / integer sample weights vs replicated rows, Efron vs Breslow without ties, group "
                "datafits vs plain ones, and one cyclic Gram epoch vs one CD epoch from any consistent state."),
    level_note=("Exact reals; p=2 (SLOPE n<=2, 3 thorough), n<=3, T=1. 'very large gamma / delta' is checked in exact form "
                "on the region where both coincide. Estimator vs GeneralizedLinearEstimator equivalence is handled under C11."),
)
