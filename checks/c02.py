"""C02 -- converged convex fits reach the reference optimum (family D, variational-inequality oracle)."""
import itertools
import numpy as np

from checks.common import Unit, X_of, mk_sep_penalty
from checks import driver as DR
from checks.steps import dh
from vf.sym import _isinf

EXPLANATION = ("For convex compositions, at every return of a bounded run of the real driver with stop_crit <= tol, the one-sided "
               "directional derivative of the TRUE objective F = datafit.value + penalty.value (real value() code run on dual "
               "numbers, model fit recomputed from w) is >= -tol along every signed coordinate direction (and the intercept "
               "direction). For a smooth convex loss plus a separable convex penalty this is the variational inequality "
               "F(v) >= F(w) - tol * ||v - w||_1 for EVERY competitor v (convexity, stated lemma): the returned point is within "
               "tol * ||w - w*||_1 of any reference optimum, and any two solvers that stop on the same problem are within that "
               "margin of each other. External reference implementations are concrete programs behind a C boundary and cannot "
               "be executed symbolically: the mathematical optimum replaces them.")
ASSUMPTIONS = ["default ws_strategy='subdiff' (the fixpoint residual certifies the prox-gradient point, see C01)",
               "exact reals; convex compositions only (Quadratic / WeightedQuadratic / Huber x L1 / WeightedL1 / L1_plus_L2 / "
               "positive variants / IndicatorBox / PositiveConstraint); catalogue designs; bounded runs (warm start = any state)",
               "lemma: convexity turns the directional inequalities into the global variational inequality",
               "Logistic/Poisson (transcendental objectives), PDCD_WS (primal-dual criterion) and numerical agreement with "
               "sklearn/celer are outside"]
BOUNDS = dict(quick="AndersonCD / GramCD / ProxNewton t0 runs + cold (2,1) runs; AndersonCD.path on 2 symbolic alphas, 1 epoch per "
                    "point; FISTA 1 iteration from any start", thorough="more designs and penalties")


def directional_ok(h, R, w, tol):
    """F'(w; +-e_k) >= -tol for every coordinate (and intercept) direction"""
    nw = len(w)
    ok = h.true()
    if h.mode == 'sym':
        from vf.dual import Dual, tangent
        for k in range(nw):
            for sgn in (1.0, -1.0):
                wd = [w[i] for i in range(nw)]
                wd[k] = Dual(w[k], sgn)
                F = DR.objective(h, R, wd)
                if _isinf(F):
                    continue                  # infeasible direction of an indicator penalty: not a competitor
                ok = h.and_(ok, h.ge(tangent(F), -tol))
        return ok
    F0 = float(DR.objective(h, R, w))
    for k in range(nw):
        for sgn in (1.0, -1.0):
            e = 1e-7 * (1 + abs(float(w[k])))
            wd = [float(v) for v in w]
            wd[k] += sgn * e
            F = float(DR.objective(h, R, wd))
            if not np.isfinite(F):
                continue
            ok = h.and_(ok, (F - F0) / e >= -float(tol) - 1e-5 * (1 + abs(F0)))
    return ok


def u_vi(h, cfg):
    R = DR.run_driver(h, cfg)
    w = [R.w[k] for k in range(len(R.w))]
    for k in range(len(w)):
        h.observe('w%d' % k, w[k])
    stopped = h.le(R.stop_crit, R.tol)
    if (h.mode == 'sym' and not bool(stopped)) or (h.mode != 'sym' and not stopped.strict):
        h.ensure('variational-inequality', True)
        return
    F = DR.objective(h, R, w)
    h.ensure('returned-point-feasible', not _isinf(F) if h.mode == 'sym' else np.isfinite(float(F)))
    h.ensure('variational-inequality', directional_ok(h, R, w, R.tol))


def u_fista(h, datafit, penalty, X, warm=True):
    """one FISTA iteration from an arbitrary start: a tolerance stop must certify the returned point"""
    import skglm.solvers as S
    Xc = X_of(X)
    n, p = Xc.shape
    tol = h.real('tol')
    h.assume(tol > 0)
    pen, meta = mk_sep_penalty(h, penalty, p=p, concrete_hyper=True)
    df, y, dmeta = DR.mk_datafit(h, datafit, n)
    Xd = h.const(Xc)
    w0 = h.vec('w0_', p) if warm else None
    sol = S.FISTA(max_iter=1, tol=tol)
    if hasattr(df, 'initialize'):
        df.initialize(Xd, y)
    w, obj, sc = sol._solve(Xd, y, df, pen, w0, None)
    R = DR.Rec()
    R.cfg = dict(solver='FISTA')
    R.n, R.p, R.Xc, R.y, R.df, R.dmeta, R.pen, R.meta, R.fit_intercept = n, p, Xc, y, df, dmeta, pen, meta, False
    wl = [w[k] for k in range(p)]
    for k in range(p):
        h.observe('w%d' % k, wl[k])
    stopped = h.lt(sc, tol)          # FISTA stops on a strict inequality
    if (h.mode == 'sym' and not bool(stopped)) or (h.mode != 'sym' and not stopped.strict):
        h.ensure('variational-inequality', True)
        return
    # F16: the stopping test pairs the NEW iterate with the gradient at the OLD extrapolation point.  A violation is
    # attributed to F16 only when the criterion evaluated with the gradient AT the returned point would not have stopped;
    # a violation at a point the fresh criterion accepts is reported.
    R.cfg['ws_strategy'] = 'subdiff'
    fresh = DR.violation_terms(h, R, wl)
    fresh_stops = h.all_([h.lt(t, tol) for t in fresh if not _isinf(t)] + [h.true() if not any(_isinf(t) for t in fresh) else h.false()])
    h.ensure('variational-inequality', directional_ok(h, R, wl, tol), findings={'F16': h.not_(fresh_stops)})


def u_path_vi(h, penalty, X, fit_intercept, sparse=False, epochs=1):
    """real AndersonCD.path on a 2-point grid (cold start, one epoch per grid point): every grid point whose reported
    stop_crit is <= tol satisfies the variational inequality of ITS OWN problem (alpha_t) -- in particular the second
    point, which is warm-started from the first through path()'s own (w, Xw) bookkeeping"""
    import skglm.solvers.anderson_cd as acd
    import skglm.solvers as S
    Xc = X_of(X)
    n, p = Xc.shape
    tol = h.real('tol')
    h.assume(tol > 0)
    pen, meta = mk_sep_penalty(h, penalty, p=p, concrete_hyper=True)
    df, y, dmeta = DR.mk_datafit(h, 'Quadratic', n)
    a1, a2 = h.real('alpha1'), h.real('alpha2')
    h.assume(a1 > 0, a2 > 0)
    alphas = [a1, a2]
    nw = p + (1 if fit_intercept else 0)
    solver = S.AndersonCD(max_iter=1, max_epochs=epochs, p0=p, tol=tol, fit_intercept=fit_intercept)
    Xd = h.const(Xc)
    Xarg = h.csc(Xd) if sparse else Xd
    old = acd.check_array
    if h.mode == 'sym':
        acd.check_array = lambda a, *args, **kw: a
    try:
        res = solver.path(Xarg, y, df, pen, alphas=h.arr(alphas) if h.mode == 'sym' else np.array(alphas, dtype=float))
    finally:
        acd.check_array = old
    _, coefs, stop_crits = res[:3]
    R = DR.Rec()
    R.cfg = dict(solver='AndersonCD', ws_strategy='subdiff')
    R.n, R.p, R.Xc, R.y, R.df, R.dmeta, R.pen, R.meta, R.fit_intercept = n, p, Xc, y, df, dmeta, pen, meta, fit_intercept
    for t in range(2):
        w = [coefs[k, t] for k in range(nw)]
        for k in range(nw):
            h.observe('coef%d_%d' % (k, t), w[k])
        pen.alpha = alphas[t]
        meta['alpha'] = alphas[t]
        stopped = h.le(stop_crits[t], tol)
        if (h.mode == 'sym' and bool(stopped)) or (h.mode != 'sym' and stopped.strict):
            h.ensure('variational-inequality[grid point %d]' % t, directional_ok(h, R, w, tol))
        else:
            h.ensure('variational-inequality[grid point %d]' % t, True)


def units(tier):
    us = []
    q = tier == 'quick'
    convex = [('Quadratic', 'L1'), ('Quadratic', 'L1+'), ('Quadratic', 'WeightedL1'), ('Quadratic', 'L1_plus_L2'),
              ('Quadratic', 'L1_plus_L2+'), ('Quadratic', 'IndicatorBox'), ('Quadratic', 'PositiveConstraint'),
              ('WeightedQuadratic', 'L1'), ('Huber', 'L1')]
    for (df, pen), X in itertools.product(convex, ['corr32', 'gen32'] if q else ['corr32', 'gen32', 'wide23', 'dup32']):
        # (the 'fixpoint' strategy measures the prox-gradient residual, which bounds the variational inequality at the
        #  prox-gradient point, not at w itself: its certificate is C01's own oracle; the default 'subdiff' is used here)
        for fi, strat, sparse in itertools.product((False, True), ('subdiff',), (False, True)):
            if q and dh((df, pen, X, fi, strat, sparse)) % 2:
                continue
            Xn = 'orth22' if df == 'Huber' else X
            us.append(Unit('C02/D/AndersonCD[t0,%s,%s,X=%s,intercept=%s,%s,sparse=%s]' % (df, pen, Xn, fi, strat, sparse), u_vi,
                           dict(cfg=dict(solver='AndersonCD', datafit=df, penalty=pen, X=Xn, max_iter=1, max_epochs=0, p0=1,
                                         fit_intercept=fi, ws_strategy=strat, warm=True, sparse=sparse)),
                           wall_s=90, timeout_ms=8000))
    for (df, pen), fi in itertools.product([('Quadratic', 'L1'), ('Quadratic', 'WeightedL1')], (False, True)):
        us.append(Unit('C02/D/AndersonCD[e2e,%s,%s,intercept=%s]' % (df, pen, fi), u_vi,
                       dict(cfg=dict(solver='AndersonCD', datafit=df, penalty=pen, X='corr32', max_iter=2, max_epochs=1, p0=1,
                                     fit_intercept=fi, ws_strategy='subdiff', warm=False)), wall_s=120, timeout_ms=8000))
    for pen, fi, sparse in itertools.product(['L1'] if q else ['L1', 'L1+', 'IndicatorBox'], (False, True), (False, True)):
        if q and fi and sparse:
            continue
        us.append(Unit('C02/D/AndersonCD.path[%s,intercept=%s,sparse=%s]' % (pen, fi, sparse), u_path_vi,
                       dict(penalty=pen, X='corr32', fit_intercept=fi, sparse=sparse), wall_s=150, timeout_ms=8000))
    # MultiTaskBCD with one task (multi-task lasso = lasso): a tolerance stop certifies the returned point (for the convex
    # L2_1 penalty the certificate of C01 is the variational inequality), dense and CSC, cold and warm starts
    from checks import steps as STP
    for fi, sp, warm in itertools.product((False, True), (False, True), (False, True)):
        us.append(Unit('C02/D/MultiTaskBCD[T=1,intercept=%s,sparse=%s,warm=%s]' % (fi, sp, warm), STP.u_multitask_run,
                       dict(X='corr32', fit_intercept=fi, sparse=sp, warm=warm, budget=(2, 1), want=('certificate',)),
                       wall_s=90, timeout_ms=8000))
    # GramCD with acceleration, three iterations: the state kept after an ACCEPTED extrapolation (contract stub, exact catalogue
    # proposals) must still certify what a later tolerance stop returns
    us.append(Unit('C02/D/GramCD-accelerated[L1,3 iterations]', u_vi,
                   dict(cfg=dict(solver='GramCD', datafit='Quadratic', penalty='L1', X='corr32', max_iter=3, max_iter_unpatched=21,
                                 acc_stub=1, use_acc=True, greedy_cd=False, warm=True, fit_intercept=False,
                                 acc_catalogue=[1.0, 0.0])), wall_s=100, max_paths=6000, timeout_ms=8000, patched=True))
    for pen, X, greedy in itertools.product(['L1', 'L1+', 'WeightedL1', 'IndicatorBox'], ['corr32', 'gen32'], (False, True)):
        if q and dh((pen, X, greedy)) % 2:
            continue
        us.append(Unit('C02/D/GramCD[%s,X=%s,greedy=%s]' % (pen, X, greedy), u_vi,
                       dict(cfg=dict(solver='GramCD', datafit='Quadratic', penalty=pen, X=X, max_iter=1, greedy_cd=greedy, warm=True,
                                     fit_intercept=False)), wall_s=90, timeout_ms=8000))
    for pen, fi, sparse in itertools.product(['L1', 'L1_plus_L2'], (False, True), (False, True)):
        if q and dh((pen, fi, sparse)) % 2:
            continue
        us.append(Unit('C02/D/ProxNewton[t0,Quadratic,%s,intercept=%s,sparse=%s]' % (pen, fi, sparse), u_vi,
                       dict(cfg=dict(solver='ProxNewton', datafit='Quadratic', penalty=pen, X='corr32', max_iter=1, max_pn_iter=0,
                                     p0=1, fit_intercept=fi, ws_strategy='subdiff', warm=True, sparse=sparse)),
                       wall_s=90, timeout_ms=8000, patched=True))
    for (df, pen), X in itertools.product([('Quadratic', 'L1'), ('Quadratic', 'IndicatorBox')] + ([] if q else [('Quadratic', 'WeightedL1')]),
                                          ['shear32', 'shear22', 'diag22', 'orth22', 'tri22'] if not q else ['shear32']):
        us.append(Unit('C02/D/FISTA[%s,%s,X=%s]' % (df, pen, X), u_fista, dict(datafit=df, penalty=pen, X=X), wall_s=120,
                       timeout_ms=8000))
    return us


MANIFEST = dict(
    claimed=True,
    level_text=("Bounded symbolic model checking with a variational-inequality oracle: at every tolerance stop of bounded runs of "
                "the real AndersonCD, GramCD and ProxNewton drivers on convex compositions (arbitrary warm start = any state, and "
                "cold-start (2,1) runs; dense and CSC; default 'subdiff' strategy; with/without intercept) and of MultiTaskBCD with one task, for all y, alpha, tol, weights, "
                "the one-sided directional derivative of the true objective -- the real value() code on dual numbers -- is >= "
                "-tol along every signed coordinate and intercept direction; by convexity the returned point then satisfies "
                "F(v) >= F(w) - tol*||v-w||_1 against EVERY competitor v, i.e. it is tol-optimal and all solvers stopping on the "
                "same problem agree within that margin. The real AndersonCD.path() on a 2-point grid whose points move is "
                "checked the same way per grid point (for its own alpha). FISTA's stopping test is checked the same way "
                "(known finding F16)."),
    level_note=("The mathematical optimum replaces external reference implementations (sklearn, LP/conic solvers cannot be "
                "executed symbolically; 'converged' is an unbounded notion). Convexity lemma trusted. Logistic / Poisson / SVC "
                "through estimators, PDCD_WS, quantile / square-root lasso references and uniqueness of the minimiser are outside. "
                "Known finding F16: FISTA pairs the new iterate with the gradient at the previous extrapolation point in its "
                "stopping test, so its tolerance stop does not certify the returned point."),
)
