"""C08 -- the distance-to-subdifferential score is sound (family K)."""
import numpy as np

from checks.common import Unit, P, mk_sep_penalty, SEP_CONVEX, SEP_NONCONVEX, dderiv
from vf.sym import _isinf

EXPLANATION = ("One-sided derivatives of the penalty's real value() code are obtained by running it on dual numbers "
               "(lexicographic comparisons make kinks and region boundaries exact); z3 decides that subdiff_distance "
               "equals the distance of -grad to the interval/ball they span, for all (w, grad, hyper-parameters).")
ASSUMPTIONS = [
    "exact real arithmetic; alpha > 0, weights >= 0 (zero included), MCP gamma > 0, SCAD gamma > 2",
    "regular (Frechet) subdifferential; L0.5 / L2/3 / block-L0.5 return 0 at w=0 by design (subdifferential is R there)",
    "positivity constraints that the penalty's value() does not encode are added by the harness (documented semantics)",
    "block penalties: rows/groups of dimension <= 2",
]
BOUNDS = dict(quick="vectors of length 2; working sets [0,1], [1,0], [1], [0]; rows/groups of dimension <= 2",
              thorough="same with all working-set variants for every penalty and T in {1,2}")
WS_VARIANTS = ([0, 1], [1, 0], [1], [0])


def _one_sided(h, pen, w, j, p, meta):
    """(lo, hi) = [phi'_-(w_j), phi'_+(w_j)] of t -> value(w with w_j = t); +-inf as floats."""
    from vf.dual import Dual, tangent

    def slope(sgn):
        vals = [0.0] * p          # separable: the slope in coordinate j does not depend on the others
        vals[j] = Dual(w[j], sgn)
        v = pen.value(h.arr(vals))
        if _isinf(v):
            return None
        return tangent(v)
    up = slope(+1)
    dn = slope(-1)
    hi = float('inf') if up is None else up
    lo = -float('inf') if dn is None else -dn
    return lo, hi


def _dist_to_interval(h, g, lo, hi):
    """distance of -g to [lo, hi] as a symbolic/float expression"""
    from vf.shim import _smax
    r = 0.0
    if not _isinf(lo):
        r = _smax(r, lo + g)
    if not _isinf(hi):
        r = _smax(r, -g - hi)
    return r


def u_subdiff_sep(h, name, ws):
    p = 2
    pen, meta = mk_sep_penalty(h, name, p=p)
    w = h.vec('w', p)
    grad = h.vec('g', len(ws))
    ws_a = np.array(ws, dtype=np.int64)
    root = name in ('L0_5', 'L2_3')
    score = pen.subdiff_distance(w, grad, ws_a)
    for idx in range(len(ws)):
        if not _isinf(score[idx]):
            h.observe('score%d' % idx, score[idx])
    if h.mode != 'sym':
        # concrete replay: finite-difference one-sided slopes of the real value()
        for idx, j in enumerate(ws):
            e = 1e-7 * (abs(w[j]) + 1)
            def val(t):
                ww = np.array(w, dtype=float)
                ww[j] = t
                if meta.get('positive') and not meta.get('constraint_in_value') and t < 0:
                    return np.inf
                return pen.value(ww)
            v0 = val(w[j])
            if not np.isfinite(v0):
                h.ensure('score[%d]' % idx, not np.isfinite(score[idx]))
                continue
            vu, vd = val(w[j] + e), val(w[j] - e)
            hi = (vu - v0) / e if np.isfinite(vu) else np.inf
            lo = (v0 - vd) / e if np.isfinite(vd) else -np.inf
            if root and w[j] == 0:
                h.ensure('score[%d]' % idx, score[idx] == 0)
                continue
            exp = max(0.0, lo + grad[idx], -grad[idx] - hi)
            h.ensure('score[%d]' % idx, abs(score[idx] - exp) <= 1e-4 * (abs(exp) + abs(grad[idx]) + 1))
        return
    for idx, j in enumerate(ws):
        infeasible = h.false()
        if meta.get('positive'):
            infeasible = h.lt(w[j], 0)
        if meta.get('box') is not None:
            infeasible = h.or_(h.lt(w[j], 0), h.gt(w[j], meta['box']))
        if bool(infeasible):
            h.ensure('score[%d]-infinite-when-infeasible' % idx, _isinf(score[idx]) and score[idx] > 0)
            continue
        if root and bool(w[j] == 0):
            h.ensure('score[%d]' % idx, h.eq(score[idx], 0))
            continue
        lo, hi = _one_sided(h, pen, w, j, p, meta)
        if meta.get('positive') and not meta.get('constraint_in_value') and bool(w[j] == 0):
            lo = -float('inf')
        if _isinf(score[idx]):
            h.ensure('score[%d]-finite-when-feasible' % idx, h.false())
            continue
        if not _isinf(lo) and not _isinf(hi):
            h.ensure('subdifferential-nonempty[%d]' % idx, h.le(lo, hi))
        h.ensure('score[%d]' % idx, h.eq(score[idx], _dist_to_interval(h, grad[idx], lo, hi)))


def u_prox_link(h, name, j=0):
    """prox(w - s*g, s) == w  =>  score(w, g) == 0 ; and the converse for convex penalties."""
    p = 2
    s = h.real('step')
    h.assume(s > 0)
    pen, meta = mk_sep_penalty(h, name, p=p, step=s)
    w = h.vec('w', p)
    g = h.real('g')
    if meta.get('box') is not None:
        h.assume(h.and_(h.ge(w[j], 0), h.le(w[j], meta['box'])))
    pr = pen.prox_1d(w[j] - s * g, s, j)
    score = pen.subdiff_distance(w, h.arr([g]), np.array([j], dtype=np.int64))[0]
    fixed = h.eq(pr, w[j])
    if h.mode == 'sym' and _isinf(score):
        h.ensure('fixed-point=>score-zero', h.not_(fixed))
        return
    h.ensure('fixed-point=>score-zero', h.implies(fixed, h.eq(score, 0)))
    if meta['convex']:
        h.ensure('score-zero=>fixed-point', h.implies(h.eq(score, 0), fixed))


def u_unpenalized(h, name):
    """features flagged unpenalised contribute nothing to value()"""
    p = 2
    pen, meta = mk_sep_penalty(h, name, p=p, zero_weight=1)
    mask = pen.is_penalized(p)
    w = h.vec('w', p)
    if meta['positive']:
        h.assume(w[0] >= 0, w[1] >= 0)
    v1 = pen.value(w)
    for j in range(p):
        if not bool(mask[j]):
            ww = [w[0], w[1]]
            ww[j] = 0.0
            h.ensure('flagged-unpenalised=>no-contribution[%d]' % j, h.eq(v1, pen.value(h.arr(ww))))
    h.ensure('zero-weight=>no-contribution', h.eq(v1, pen.value(h.arr([w[0], 0.0]))))
    g = h.vec('g', p)
    sc = pen.subdiff_distance(w, g, np.arange(p))
    if not meta['positive']:
        h.ensure('score-unpenalised-is-abs-grad', h.eq(sc[1], abs(g[1])))


def u_fixpoint_cd(h, name, ws):
    from skglm.solvers.common import dist_fix_point_cd
    p = 2
    pen, meta = mk_sep_penalty(h, name, p=p)
    w = h.vec('w', p)
    g = h.vec('g', len(ws))
    L = h.vec('L', len(ws))
    for k in range(len(ws)):
        h.assume(L[k] >= 0)
        if not meta['convex']:
            # admissible step for the non-convex prox
            gam = meta['gamma']
            if name.startswith('SCAD'):
                h.assume(h.or_(h.eq(L[k], 0), h.gt(L[k] * (gam - 1), 1)))
            elif meta.get('weights') is not None:
                h.assume(h.or_(h.eq(L[k], 0), h.gt(L[k] * gam, meta['weights'][ws[k]])))
            else:
                h.assume(h.or_(h.eq(L[k], 0), h.gt(L[k] * gam, 1)))
    ws_a = np.array(ws, dtype=np.int64)
    d = dist_fix_point_cd(w, g, L, None, pen, ws_a)
    for idx, j in enumerate(ws):
        if bool(L[idx] == 0):
            h.ensure('skip-zero-lipschitz[%d]' % idx, h.eq(d[idx], 0))
            continue
        st = 1 / L[idx]
        ref = abs(w[j] - pen.prox_1d(w[j] - st * g[idx], st, j))
        h.ensure('dist[%d]' % idx, h.eq(d[idx], ref))


# ---- block penalties -------------------------------------------------------------------------------
def _row_pen(h, name, gamma=None):
    Pm = P()
    al = h.real('alpha')
    h.assume(al > 0)
    kw = dict(alpha=al)
    if name in ('BlockMCPenalty', 'BlockSCAD'):
        g = h.real('gamma') if gamma is None else h.constant(gamma)
        h.assume(g > (2 if name == 'BlockSCAD' else 0))
        kw['gamma'] = g
    return h.penalty(getattr(Pm, name), **kw), kw


def u_subdiff_rows(h, name, T, ws, zero_row, gamma=None):
    """rows of T tasks: score == ||grad + nabla pen(W_j)|| off zero, max(0, ||grad|| - phi'(0+)) at zero."""
    from vf.dual import Dual, tangent
    pen, kw = _row_pen(h, name, gamma)
    nrow = 2
    W = h.mat('W', nrow, T)
    if zero_row is not None:
        for t in range(T):
            h.assume(h.eq(W[zero_row, t], 0))
    grad = h.mat('g', len(ws), T)
    ws_a = np.array(ws, dtype=np.int64)
    score = pen.subdiff_distance(W, grad, ws_a)
    for idx in range(len(ws)):
        h.observe('score%d' % idx, score[idx])
    flatW = [W[r, t] for r in range(nrow) for t in range(T)]

    def val(Z):
        return pen.value(Z)

    def unit_dir(r, t, sgn=1.0):
        return [sgn if (rr == r and tt == t) else 0.0 for rr in range(nrow) for tt in range(T)]
    for idx, j in enumerate(ws):
        is_zero = all(bool(W[j, t] == 0) for t in range(T))
        if is_zero:
            if name == 'L2_05':
                h.ensure('score[%d]' % idx, h.eq(score[idx], 0))
                continue
            # radius = one-sided derivative along e_0 of the real value()
            rad = dderiv(h, val, flatW, unit_dir(j, 0), shape=(nrow, T), onesided=True)
            ng2 = 0.0
            for t in range(T):
                ng2 = ng2 + grad[idx, t] * grad[idx, t]
            inside = h.le(ng2, rad * rad)
            h.ensure('score[%d]' % idx, h.and_(
                h.implies(inside, h.eq(score[idx], 0)),
                h.implies(h.not_(inside), h.and_(h.gt(score[idx], 0),
                                                 h.eq((score[idx] + rad) * (score[idx] + rad), ng2)))))
        else:
            res2 = 0.0
            for t in range(T):
                dplus = dderiv(h, val, flatW, unit_dir(j, t), shape=(nrow, T), onesided=True)
                dminus = dderiv(h, val, flatW, unit_dir(j, t, -1.0), shape=(nrow, T), onesided=True)
                if h.mode == 'sym':
                    h.ensure('smooth[%d,%d]' % (idx, t), h.eq(dplus, -dminus))
                res2 = res2 + (grad[idx, t] + dplus) * (grad[idx, t] + dplus)
            if h.mode == 'sym':
                h.ensure('score[%d]' % idx, h.and_(h.ge(score[idx], 0), h.eq(score[idx] * score[idx], res2)))
            else:
                h.ensure('score[%d]' % idx, abs(float(score[idx]) ** 2 - float(res2)) <= 1e-4 * (abs(float(res2)) + 1))


def u_subdiff_group(h, layout, ws, positive, zero_group):
    from vf.dual import Dual, tangent
    Pm = P()
    al = h.real('alpha')
    h.assume(al > 0)
    grp_ptr = np.cumsum([0] + [len(g) for g in layout]).astype(np.int32)
    grp_idx = np.array([i for g in layout for i in g], dtype=np.int32)
    ng = len(layout)
    pfeat = len(grp_idx)
    wg = h.vec('wg', ng)
    for g in range(ng):
        h.assume(wg[g] >= 0)
    pen = h.penalty(Pm.WeightedGroupL2, alpha=al, weights=wg, grp_ptr=grp_ptr, grp_indices=grp_idx,
                    positive=positive)
    w = h.vec('w', pfeat)
    if zero_group is not None:
        for i in layout[zero_group]:
            h.assume(h.eq(w[i], 0))
    nws = sum(len(layout[g]) for g in ws)
    grad = h.vec('g', nws)
    ws_a = np.array(ws, dtype=np.int64)
    score = pen.subdiff_distance(w, grad, ws_a)
    for idx in range(len(ws)):
        if not _isinf(score[idx]):
            h.observe('score%d' % idx, score[idx])
    ptr = 0
    for idx, g in enumerate(ws):
        ind = layout[g]
        gg = [grad[ptr + k] for k in range(len(ind))]
        ptr += len(ind)
        if positive and any(bool(w[i] < 0) for i in ind):
            h.ensure('score[%d]-infinite-when-infeasible' % idx, _isinf(score[idx]))
            continue
        if positive:
            # remaining coordinates feasible, so that value() is finite at the point examined
            for i in range(pfeat):
                if i not in ind:
                    h.assume(w[i] >= 0)
        if _isinf(score[idx]):
            h.ensure('score[%d]-finite-when-feasible' % idx, h.false())
            continue
        # (a) score == 0  =>  first-order stationarity in every feasible direction (via the real value())
        if h.mode == 'sym':
            d = h.vec('d%d_' % idx, len(ind))
            full = [w[i] for i in range(pfeat)]
            feas = h.true()
            for k, i in enumerate(ind):
                full[i] = Dual(w[i], d[k])
                if positive:
                    feas = h.and_(feas, h.implies(h.eq(w[i], 0), h.ge(d[k], 0)))
            val = pen.value(h.arr(full))
            lin = 0.0
            for k in range(len(ind)):
                lin = lin + gg[k] * d[k]
            h.ensure('zero-score=>stationary[%d]' % idx,
                     h.implies(h.and_(h.eq(score[idx], 0), feas), h.ge(lin + tangent(val), 0)))
        # (b) reference distance (doc/tutorials/prox_nn_group_lasso.rst), squared to stay polynomial
        is_zero = all(bool(w[i] == 0) for i in ind)
        thr = al * wg[g]
        if is_zero:
            n2 = 0.0
            for k in range(len(ind)):
                if positive:
                    neg = bool(gg[k] < 0)
                    n2 = n2 + (gg[k] * gg[k] if neg else 0.0)
                else:
                    n2 = n2 + gg[k] * gg[k]
            inside = h.le(n2, thr * thr)
            h.ensure('score[%d]' % idx, h.and_(
                h.implies(inside, h.eq(score[idx], 0)),
                h.implies(h.not_(inside), h.and_(h.gt(score[idx], 0),
                                                 h.eq((score[idx] + thr) * (score[idx] + thr), n2)))))
        else:
            from vf.shim import norm as snorm
            nw = snorm(h.arr([w[i] for i in ind]))
            res2 = 0.0
            for k, i in enumerate(ind):
                r = gg[k] + thr * w[i] / nw
                if positive and bool(w[i] == 0):
                    # normal cone of the orthant adds (-inf, 0]: only the positive part of -g_k counts
                    r = (-gg[k]) if bool(gg[k] < 0) else 0.0
                res2 = res2 + r * r
            h.ensure('score[%d]' % idx, h.and_(h.ge(score[idx], 0), h.eq(score[idx] * score[idx], res2)))


def units(tier):
    us = []
    sep = SEP_CONVEX + SEP_NONCONVEX + ['L0_5', 'L2_3']
    for name in sep:
        variants = WS_VARIANTS if (tier == 'thorough' or name in ('WeightedL1', 'WeightedMCPenalty', 'WeightedL1+')) \
            else (WS_VARIANTS[1], WS_VARIANTS[2])
        for ws in variants:
            us.append(Unit('C08/K/%s/subdiff_distance[ws=%s]' % (name, ws), u_subdiff_sep, dict(name=name, ws=ws),
                           wall_s=90))
    for name in SEP_CONVEX + ['MCPenalty', 'MCPenalty+', 'WeightedMCPenalty']:
        for j in (0, 1):
            us.append(Unit('C08/K/%s/prox-link[j=%d]' % (name, j), u_prox_link, dict(name=name, j=j), wall_s=60))
    for name in ('WeightedL1', 'WeightedL1+', 'WeightedMCPenalty'):
        us.append(Unit('C08/K/%s/unpenalised' % name, u_unpenalized, dict(name=name), wall_s=30))
    for name in ('L1', 'WeightedL1', 'L1_plus_L2+', 'IndicatorBox', 'MCPenalty', 'WeightedMCPenalty'):
        for ws in (WS_VARIANTS if tier == 'thorough' else (WS_VARIANTS[1], WS_VARIANTS[2])):
            us.append(Unit('C08/K/%s/dist_fix_point_cd[ws=%s]' % (name, ws), u_fixpoint_cd, dict(name=name, ws=ws),
                           wall_s=60))
    for name in ('L2_1', 'BlockMCPenalty', 'BlockSCAD', 'L2_05'):
        for T in ((1, 2) if tier == 'thorough' or name == 'L2_1' else (2,)):
            for ws, zr in (([1, 0], 0), ([1], None), ([0, 1], 1)):
                # shrink rule: gamma concretised for the block penalties with T=2 (symbolic gamma: >150 s)
                gams = (None,) if (T == 1 or name in ('L2_1', 'L2_05')) else ((3.0,) if tier == 'quick' else (2.5, 3.7))
                for gam in gams:
                    us.append(Unit('C08/K/%s/subdiff_distance[T=%d,ws=%s,zero_row=%s,gamma=%s]' % (name, T, ws, zr, gam),
                                   u_subdiff_rows, dict(name=name, T=T, ws=ws, zero_row=zr, gamma=gam), wall_s=120))
    for li, lay in enumerate([[[0, 1]], [[1], [0]], [[0, 2], [1]]]):
        for pos in (False, True):
            wss = [list(range(len(lay)))[::-1]] + ([[0]] if len(lay) > 1 else [])
            for ws in wss:
                for zg in (None, 0):
                    us.append(Unit('C08/K/WeightedGroupL2%s/subdiff_distance[layout=%d,ws=%s,zero=%s]' % (
                        '+' if pos else '', li, ws, zg), u_subdiff_group,
                        dict(layout=lay, ws=ws, positive=pos, zero_group=zg), wall_s=120))
    return us


MANIFEST = dict(
    claimed=True,
    level_text=("Bounded symbolic model checking of every subdiff_distance: the regular subdifferential is derived from the "
                "penalty's own value() code by lexicographic dual numbers (one-sided derivatives, exact at kinks), and z3 "
                "decides score == distance(-grad, subdifferential) on every path for all (w, grad, hyper-parameters, "
                "weights incl. zero), score == +inf on infeasible points, the prox fixed-point link in both directions "
                "(convex) and that unpenalised features contribute nothing. Working sets [0,1],[1,0],[1],[0] expose "
                "idx-vs-j index mix-ups that ws=arange(p) (all the tests use) hides."),
    level_note=("Exact reals; vectors of length 2, rows/groups of dimension <= 2; regular subdifferential only. For "
                "WeightedGroupL2(positive=True) the full distance is compared with the documented formula (reference model) "
                "and tied to value() through 'zero score => directional stationarity'. Block penalties are smooth off the "
                "origin (asserted). dist_fix_point_bcd (two copies) is covered at solver level (C01), not here."),
)
