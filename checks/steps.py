"""Family S (single primitive steps from an arbitrary consistent state) and shared D-level obligations."""
import itertools
import zlib

import numpy as np

from checks.common import P, D, X_of, mk_sep_penalty, feasible
from vf.harness import AssumptionFailed
from checks import driver as DR
from vf.sym import _isinf


def dh(t):
    return zlib.crc32(repr(t).encode())


def _state(h, Xc, fit_intercept, meta, nm='w'):
    n, p = Xc.shape
    w = h.vec(nm, p)
    b = h.real('b') if fit_intercept else 0.0
    for j in range(p):
        h.assume(feasible(h, meta, w[j]))
    if h.mode == 'sym':
        Xw = h.arr([sum(Xc[i, j] * w[j] for j in range(p) if Xc[i, j] != 0) + b for i in range(n)])
    else:
        Xw = Xc @ np.asarray(w, dtype=float) + b
    return w, b, Xw


def _consistent(h, Xc, w, b, Xw):
    n, p = Xc.shape
    c = h.true()
    for i in range(n):
        ref = sum(Xc[i, j] * w[j] for j in range(p) if Xc[i, j] != 0) + b
        c = h.and_(c, h.eq(Xw[i], ref))
    return c


def _F(h, df, pen, y, w, Xw, p):
    v = df.value(y, h.arr([w[j] for j in range(p)]), h.arr([Xw[i] for i in range(len(Xw))]))
    pv = pen.value(h.arr([w[j] for j in range(p)]))
    if _isinf(pv):
        return pv
    return v + pv


def u_cd_step(h, datafit, penalty, X, j, fit_intercept=False, descent=True):
    """one coordinate of the real _cd_epoch and of _cd_epoch_sparse from an arbitrary feasible, consistent state"""
    from skglm.solvers.anderson_cd import _cd_epoch, _cd_epoch_sparse
    Xc = X_of(X)
    n, p = Xc.shape
    pen, meta = mk_sep_penalty(h, penalty, p=p, concrete_hyper=True)
    df, y, dmeta = DR.mk_datafit(h, datafit, n)
    Xd = h.const(Xc)
    Xs = h.csc(Xd)
    w, b, Xw = _state(h, Xc, fit_intercept, meta)
    Lc = DR.coordinate_lipschitz(datafit, Xc, dmeta)
    if not meta['convex'] and 'gamma' in meta and Lc[j] > 0:
        wj = meta['weights'][j] if meta.get('weights') is not None else 1.0
        if penalty.startswith('SCAD'):
            h.assume(meta['gamma'] - 1 > 1.0 / Lc[j])
        else:
            h.assume(meta['gamma'] * Lc[j] > wj)
    df.initialize(Xd, y)
    lc = df.get_lipschitz(Xd, y)
    F0 = _F(h, df, pen, y, w, Xw, p)
    w1 = h.arr([w[k] for k in range(p)]) if h.mode == 'sym' else np.array(w, dtype=float)
    Xw1 = h.arr([Xw[i] for i in range(n)]) if h.mode == 'sym' else np.array(Xw, dtype=float)
    ws = np.array([j], dtype=np.int64)
    _cd_epoch(Xd, y, w1, Xw1, lc, df, pen, ws)
    h.observe('w_new', w1[j])
    h.ensure('consistency', _consistent(h, Xc, w1, b, Xw1))
    h.ensure('feasible', feasible(h, meta, w1[j]))
    for k in range(p):
        if k != j:
            h.ensure('untouched[%d]' % k, h.eq(w1[k], w[k]))
    if descent:
        F1 = _F(h, df, pen, y, w1, Xw1, p)
        if _isinf(F1):
            h.ensure('descent', h.false())
        elif not _isinf(F0):
            h.ensure('descent', h.le(F1, F0))
    # sparse twin from the same state
    import copy
    df_s = copy.copy(df) if h.mode == 'sym' else df
    df_s.initialize_sparse(Xs.data, Xs.indptr, Xs.indices, y)
    lcs = df_s.get_lipschitz_sparse(Xs.data, Xs.indptr, Xs.indices, y)
    w2 = h.arr([w[k] for k in range(p)]) if h.mode == 'sym' else np.array(w, dtype=float)
    Xw2 = h.arr([Xw[i] for i in range(n)]) if h.mode == 'sym' else np.array(Xw, dtype=float)
    _cd_epoch_sparse(Xs.data, Xs.indptr, Xs.indices, y, w2, Xw2, lcs, df_s, pen, ws)
    same = h.true()
    for k in range(p):
        same = h.and_(same, h.eq(w2[k], w1[k]))
    for i in range(n):
        same = h.and_(same, h.eq(Xw2[i], Xw1[i]))
    h.ensure('sparse==dense', same)


def u_intercept_step(h, datafit, X):
    """the intercept update b <- b - intercept_update_step does not increase the loss and keeps Xw consistent"""
    Xc = X_of(X)
    n, p = Xc.shape
    df, y, dmeta = DR.mk_datafit(h, datafit, n)
    meta = dict()
    w, b, Xw = _state(h, Xc, True, meta)
    Xd = h.const(Xc)
    df.initialize(Xd, y)
    st = df.intercept_update_step(y, h.arr(Xw) if h.mode == 'sym' else Xw)
    h.observe('step', st)
    v0 = df.value(y, w, h.arr(Xw) if h.mode == 'sym' else Xw)
    Xw1 = h.arr([Xw[i] - st for i in range(n)]) if h.mode == 'sym' else np.asarray(Xw) - st
    v1 = df.value(y, w, Xw1)
    h.ensure('intercept-step-descent', h.le(v1, v0))


def u_gram_step(h, penalty, X, greedy):
    """one real _gram_cd_epoch from an arbitrary state with a consistent gradient: gradient stays consistent,
    objective does not increase, feasibility kept; cyclic version equals the CD epoch on the quadratic datafit"""
    from skglm.solvers.gram_cd import _gram_cd_epoch
    Xc = X_of(X)
    n, p = Xc.shape
    pen, meta = mk_sep_penalty(h, penalty, p=p, concrete_hyper=True)
    G = Xc.T @ Xc / n
    y = h.vec('y', n)
    w = h.vec('w', p)
    for j in range(p):
        h.assume(feasible(h, meta, w[j]))
    if not meta['convex'] and 'gamma' in meta:
        for j in range(p):
            if G[j, j] > 0:
                h.assume(meta['gamma'] * G[j, j] > 1)
    q = [sum(Xc[i, j] * y[i] for i in range(n)) / n for j in range(p)]
    grad0 = [sum(G[j, k] * w[k] for k in range(p)) - q[j] for j in range(p)]
    w1 = h.arr([w[k] for k in range(p)]) if h.mode == 'sym' else np.array(w, dtype=float)
    g1 = h.arr(grad0) if h.mode == 'sym' else np.array(grad0, dtype=float)
    Gd = h.const(G)

    def obj(ww):
        quad = sum(ww[j] * sum(G[j, k] * ww[k] for k in range(p)) for j in range(p)) / 2 - sum(q[j] * ww[j] for j in range(p))
        pv = pen.value(h.arr([ww[j] for j in range(p)]))
        return None if _isinf(pv) else quad + pv
    F0 = obj(w)
    opt = _gram_cd_epoch(Gd, w1, g1, pen, greedy)
    h.observe('w0', w1[0])
    ok = h.true()
    for j in range(p):
        ref = sum(G[j, k] * w1[k] for k in range(p)) - q[j]
        ok = h.and_(ok, h.eq(g1[j], ref))
    h.ensure('gradient-consistent', ok)
    h.ensure('feasible', h.all_([feasible(h, meta, w1[j]) for j in range(p)]))
    F1 = obj(w1)
    if F0 is not None:
        h.ensure('descent', h.false() if F1 is None else h.le(F1, F0))
    # returned scores are the scores of the returned point
    sc = pen.subdiff_distance(w1, g1, np.arange(p))
    for j in range(p):
        if _isinf(sc[j]) or _isinf(opt[j]):
            h.ensure('opt-fresh[%d]' % j, _isinf(sc[j]) and _isinf(opt[j]))
        else:
            h.ensure('opt-fresh[%d]' % j, h.eq(opt[j], sc[j]))


def u_group_step(h, datafit, layout, X, g, positive=False, sparse_twin=False, sparse_epoch=False, descent=False):
    """one group of the real _bcd_epoch (and sparse twin): consistency, feasibility, untouched others"""
    from skglm.solvers.group_bcd import _bcd_epoch, _bcd_epoch_sparse
    Xc = X_of(X)
    n, p = Xc.shape
    lay = DR.GROUP_LAYOUTS[layout]
    df, pen, meta = DR.mk_group_objects(h, datafit, 'WeightedGroupL2', lay, positive=positive)
    _, y, dmeta = DR.mk_datafit(h, datafit, n)
    w = h.vec('w', p)
    if positive:
        for j in range(p):
            h.assume(w[j] >= 0)
    if h.mode == 'sym':
        Xw = h.arr([sum(Xc[i, j] * w[j] for j in range(p) if Xc[i, j] != 0) for i in range(n)])
    else:
        Xw = Xc @ np.asarray(w, dtype=float)
    Xd = h.const(Xc)
    if hasattr(df, 'initialize'):
        df.initialize(Xd, y)
    lip = df.get_lipschitz(Xd, y)
    h.ensure('one-lipschitz-per-group', len(lip) == len(lay))
    w1 = h.arr([w[k] for k in range(p)]) if h.mode == 'sym' else np.array(w, dtype=float)
    Xw1 = h.arr([Xw[i] for i in range(n)]) if h.mode == 'sym' else np.array(Xw, dtype=float)
    ws = np.array([g], dtype=np.int64)
    _bcd_epoch(Xd, y, w1, Xw1, lip, df, pen, ws)
    for k in lay[g]:
        h.observe('w%d' % k, w1[k])
    h.ensure('consistency', _consistent(h, Xc, w1, 0.0, Xw1))
    if descent:
        # the block step with the datafit's own block constant never increases the objective (real value() code)
        F0 = df.value(y, w, Xw) + pen.value(w)
        F1 = df.value(y, w1, Xw1) + pen.value(w1)
        h.ensure('descent', h.le(F1, F0))
    if positive:
        h.ensure('feasible', h.all_([h.ge(w1[k], 0) for k in lay[g]]))
    for k in range(p):
        if k not in lay[g]:
            h.ensure('untouched[%d]' % k, h.eq(w1[k], w[k]))
    if (sparse_twin or sparse_epoch) and hasattr(df, 'gradient_g_sparse'):
        Xs = h.csc(Xd)
        # sparse_epoch: the CSC epoch kernel with the SAME block constants as the dense one (isolates the kernel from the
        # randomised power method behind get_lipschitz_sparse)
        lips = lip if sparse_epoch else df.get_lipschitz_sparse(Xs.data, Xs.indptr, Xs.indices, y)
        w2 = h.arr([w[k] for k in range(p)]) if h.mode == 'sym' else np.array(w, dtype=float)
        Xw2 = h.arr([Xw[i] for i in range(n)]) if h.mode == 'sym' else np.array(Xw, dtype=float)
        _bcd_epoch_sparse(Xs.data, Xs.indptr, Xs.indices, y, w2, Xw2, lips, df, pen, ws)
        same = h.true()
        for k in range(p):
            same = h.and_(same, h.eq(w2[k], w1[k]))
        for i in range(n):
            same = h.and_(same, h.eq(Xw2[i], Xw1[i]))
        h.ensure('sparse==dense', same)


def u_multitask_step(h, X, j, T=2):
    from skglm.solvers.multitask_bcd import _bcd_epoch, _bcd_epoch_sparse
    Pm, Dm = P(), D()
    Xc = X_of(X)
    n, p = Xc.shape
    al = h.real('alpha')
    h.assume(al > 0)
    pen = h.penalty(Pm.L2_1, alpha=al)
    df = h.datafit(Dm.QuadraticMultiTask)
    Y = h.mat('Y', n, T)
    W = h.mat('W', p, T)
    if h.mode == 'sym':
        XW = h.arr([[sum(Xc[i, k] * W[k, t] for k in range(p) if Xc[i, k] != 0) for t in range(T)] for i in range(n)])
    else:
        XW = Xc @ np.asarray(W, dtype=float)
    Xd = h.const(Xc)
    df.initialize(Xd, Y)
    lc = df.get_lipschitz(Xd, Y)
    W1 = W.copy()
    XW1 = XW.copy()
    ws = np.array([j], dtype=np.int64)
    _bcd_epoch(Xd, Y, W1, XW1, lc, df, pen, ws)
    for t in range(T):
        h.observe('W%d' % t, W1[j, t])
    ok = h.true()
    for i in range(n):
        for t in range(T):
            ref = sum(Xc[i, k] * W1[k, t] for k in range(p) if Xc[i, k] != 0)
            ok = h.and_(ok, h.eq(XW1[i, t], ref))
    h.ensure('consistency', ok)
    Xs = h.csc(Xd)
    import copy
    df_s = copy.copy(df) if h.mode == 'sym' else df
    df_s.initialize_sparse(Xs.data, Xs.indptr, Xs.indices, Y)
    W2, XW2 = W.copy(), XW.copy()
    _bcd_epoch_sparse(Xs.data, Xs.indptr, Xs.indices, Y, W2, XW2, lc, df_s, pen, ws)
    same = h.true()
    for k in range(p):
        for t in range(T):
            same = h.and_(same, h.eq(W2[k, t], W1[k, t]))
    for i in range(n):
        for t in range(T):
            same = h.and_(same, h.eq(XW2[i, t], XW1[i, t]))
    h.ensure('sparse==dense', same)


def mt1_violation_terms(h, Xc, Y, W, al, fit_intercept):
    """per-row distance of -grad_j to the subdifferential of alpha*||.||_2 at row W[j] (absolute values when there is one
    task), and the intercept term max_t |d/db_t|"""
    from vf.shim import _smax
    from vf import shim
    n, p = Xc.shape
    T = Y.shape[1]
    res = [[sum(Xc[i, k] * W[k, t] for k in range(p) if Xc[i, k] != 0) + (W[p, t] if fit_intercept else 0.0) - Y[i, t]
            for t in range(T)] for i in range(n)]
    sym = h.mode == 'sym'

    def nrm(v):
        if len(v) == 1:
            return abs(v[0])
        return shim.norm(h.arr(v)) if sym else float(np.linalg.norm(np.array(v, dtype=float)))
    terms = []
    for j in range(p):
        g = [sum(Xc[i, j] * res[i][t] for i in range(n) if Xc[i, j] != 0) / n for t in range(T)]
        wj = [W[j, t] for t in range(T)]
        iszero = all((bool(v == 0) if sym else float(v) == 0.0) for v in wj)
        if iszero:
            terms.append(_smax(0.0, nrm(g) - al) if sym else max(0.0, nrm(g) - float(al)))
        elif T == 1:
            pos = bool(wj[0] > 0) if sym else (float(wj[0]) > 0)
            terms.append(abs(g[0] + (al if pos else -al)))
        else:
            nw = nrm(wj)
            terms.append(nrm([g[t] + al * wj[t] / nw for t in range(T)]))
    if fit_intercept:
        gi = [abs(sum(res[i][t] for i in range(n)) / n) for t in range(T)]
        m = gi[0]
        for v in gi[1:]:
            m = _smax(m, v) if sym else max(m, v)
        terms.append(m)
    return terms


def u_multitask_run(h, X, fit_intercept, sparse=False, warm=False, budget=(2, 1), T=1, want=('certificate', 'history'),
                    Y_concrete=None, explicit_zeros=False, p0=1):
    """bounded run of the real MultiTaskBCD with symbolic alpha, tol and (one task) symbolic Y / warm start -- row norms are
    absolute values, piecewise linear -- or (several tasks) catalogue targets: tolerance stops certify the returned point,
    the history describes the run"""
    import skglm.solvers as S
    Pm, Dm = P(), D()
    Xc = X_of(X)
    n, p = Xc.shape
    tol, al = h.real('tol'), h.real('alpha')
    h.assume(tol > 0, al > 0)
    Y = h.mat('Y', n, T) if Y_concrete is None else h.const(np.array(Y_concrete, dtype=float)[:n, :T])
    pen = h.penalty(Pm.L2_1, alpha=al)
    df = h.datafit(Dm.QuadraticMultiTask)
    Xd = h.const(Xc)
    Xa = (h.csc(Xd, pattern=[[1] * p for _ in range(n)]) if explicit_zeros else h.csc(Xd)) if sparse else Xd
    nw = p + (1 if fit_intercept else 0)
    W0 = XW0 = None
    if warm:
        W0 = h.mat('W0', nw, T)
        if h.mode == 'sym':
            XW0 = h.arr([[sum(Xc[i, k] * W0[k, t] for k in range(p) if Xc[i, k] != 0) + (W0[p, t] if fit_intercept else 0.0)
                          for t in range(T)] for i in range(n)])
        else:
            XW0 = Xc @ np.asarray(W0[:p], dtype=float) + (np.asarray(W0[p], dtype=float) if fit_intercept else 0.0)
    sol = S.MultiTaskBCD(max_iter=budget[0], max_epochs=budget[1], p0=p0, tol=tol, fit_intercept=fit_intercept, use_acc=False)
    W, obj, sc = sol._solve(Xa, Y, df, pen, W0, XW0)
    for j in range(nw):
        h.observe('W%d' % j, W[j, 0])
        h.ensure('finite-coef[%d]' % j, h.is_finite(W[j, 0]))
    for j in range(p):
        if not np.any(Xc[:, j]):
            h.ensure('zero-column-coef-is-zero[%d]' % j, h.eq(W[j, 0], 0))
    if 'certificate' in want:
        stopped = h.le(sc, tol)
        if (h.mode == 'sym' and bool(stopped)) or (h.mode != 'sym' and stopped.strict):
            ok = h.true()
            dom = h.true()
            for tm in mt1_violation_terms(h, Xc, Y, W, al, fit_intercept):
                ok = h.and_(ok, h.le(tm, tol))
                dom = h.and_(dom, h.le(tm, sc))
            h.ensure('certificate', ok)
            h.ensure('violation<=stop_crit', dom)
        else:
            h.ensure('certificate', True)
    if 'history' in want:
        L = len(obj)
        h.ensure('history-length<=max_iter', L <= budget[0])
        if L > 0:
            res = [[sum(Xc[i, k] * W[k, t] for k in range(p) if Xc[i, k] != 0) + (W[p, t] if fit_intercept else 0.0) - Y[i, t]
                    for t in range(T)] for i in range(n)]
            from vf import shim
            rown = [abs(W[j, 0]) if T == 1 else
                    (shim.norm(h.arr([W[j, t] for t in range(T)])) if h.mode == 'sym'
                     else float(np.linalg.norm(np.array([W[j, t] for t in range(T)], dtype=float)))) for j in range(p)]
            F = sum(res[i][t] * res[i][t] for i in range(n) for t in range(T)) / (2 * n) + al * sum(rown)
            h.ensure('last-history-entry==objective', h.eq(obj[L - 1], F))
            mono = h.true()
            for k in range(L - 1):
                mono = h.and_(mono, h.le(obj[k + 1], obj[k]))
            h.ensure('history-non-increasing', mono)


def u_multitask_acc(h, fit_intercept, X='corr32', sparse=False):
    """MultiTaskBCD's inline Anderson step (epoch 6 of an inner loop): the extrapolated point is an affine combination of
    the last iterates; the run that takes it must not end higher than the run that stops one epoch earlier.
    Symbolic mode: np.linalg.solve of the solver module is a contract stub returning a catalogue weight vector (so the
    proposal is one of the STORED iterates, i.e. a point the descent steps already improved on) -- patched unit.
    Concrete confirmation (unpatched): the real linear solve on a larger un-centred random problem."""
    import skglm.solvers as S
    import skglm.solvers.multitask_bcd as mtb
    Pm, Dm = P(), D()
    tol, al = h.real('tol'), h.real('alpha')
    h.assume(tol > 0, al > 0)
    big = h.mode != 'sym' and h.unpatched and getattr(h, 'rng', None) is not None
    if big:
        seed = int(float(h._val('design_seed'))) if 'design_seed' in h.values else int(h.rng.random() * 2 ** 31)
        h.values['design_seed'] = seed
        rs = np.random.RandomState(seed)
        n, p, T = 30, 8, 3
        Xc = rs.randn(n, p) + 1.0
        for j in range(1, p):
            Xc[:, j] += rs.uniform(0, 2) * Xc[:, 0]
        Y = np.asfortranarray(rs.randn(n, T) + Xc[:, :2] @ rs.randn(2, T) + 5.0 * rs.randn(1, T))
        p0 = p
    else:
        Xc = X_of(X)
        n, p = Xc.shape
        T = 1
        Y = h.mat('Y', n, T)
        p0 = 1
    Xd = h.const(Xc)
    Xa = h.csc(Xd) if sparse else Xd
    nw = p + (1 if fit_intercept else 0)
    saved = None
    if h.mode == 'sym':
        k = h.choice('acc_pick', [0, 2, 4])
        saved = mtb.np

        class _NP:
            def __getattr__(self, name):
                return getattr(saved, name)

        class _LA:
            LinAlgError = np.linalg.LinAlgError

            @staticmethod
            def solve(C, b):
                z = np.zeros(len(b))
                z[k] = 1.0
                return z
        proxy = _NP()
        proxy.linalg = _LA()
        mtb.np = proxy

    def run(epochs):
        pen = h.penalty(Pm.L2_1, alpha=al)
        df = h.datafit(Dm.QuadraticMultiTask)
        sol = S.MultiTaskBCD(max_iter=1, max_epochs=epochs, p0=p0, tol=tol, fit_intercept=fit_intercept, use_acc=True)
        W, obj, sc = sol._solve(Xa, Y, df, pen)
        res = [[sum(Xc[i, kk] * W[kk, t] for kk in range(p) if Xc[i, kk] != 0) + (W[p, t] if fit_intercept else 0.0) - Y[i, t]
                for t in range(T)] for i in range(n)]
        if T == 1:
            rown = [abs(W[j, 0]) for j in range(p)]
        else:
            rown = [float(np.linalg.norm(np.array([W[j, t] for t in range(T)], dtype=float))) for j in range(p)]
        F = sum(res[i][t] * res[i][t] for i in range(n) for t in range(T)) / (2 * n) + al * sum(rown)
        return W, F
    try:
        W6, F6 = run(6)
        W5, F5 = run(5)
    finally:
        if saved is not None:
            mtb.np = saved
    for j in range(nw):
        h.observe('W%d' % j, W6[j, 0])
    if h.mode == 'sym':
        h.ensure('extrapolation-epoch-never-increases-objective', h.le(F6, F5))
    else:
        h.ensure('extrapolation-epoch-never-increases-objective', float(F6) <= float(F5) + 1e-9 * (1 + abs(float(F5))))


def u_pn_linesearch(h, X, fit_intercept, group=False, layout='rev', group_datafit='LogisticGroup'):
    """the real backtracking line search of ProxNewton (dense and CSC twins) / GroupProxNewton from an arbitrary
    consistent state along an ARBITRARY direction: buffers stay consistent, the move is t*delta for one t for
    coefficients, intercept and model fit alike, an accepted step does not increase the objective, the returned
    gradient is the gradient at the final point, and the sparse twin returns the same state."""
    import skglm.solvers.prox_newton as pn
    import skglm.solvers.group_prox_newton as gpn
    Pm, Dm = P(), D()
    Xc = X_of(X)
    n, p = Xc.shape
    al = h.real('alpha')
    h.assume(al > 0)
    if group:
        lay = DR.GROUP_LAYOUTS[layout]
        grp_ptr = np.cumsum([0] + [len(g) for g in lay]).astype(np.int32)
        grp_idx = np.array([i for g in lay for i in g], dtype=np.int32)
        pen = h.penalty(Pm.WeightedGroupL2, alpha=al, weights=h.const(np.ones(len(lay))), grp_ptr=grp_ptr, grp_indices=grp_idx)
        # the group prox-Newton solver needs raw_grad: LogisticGroup is the group datafit that offers it
        # (with group_datafit='Quadratic' the search runs on a polynomial loss -- Quadratic offers raw_grad / raw_hessian, so
        #  GroupProxNewton accepts it -- and every obligation, including the acceptance test, is decidable)
        df_ls = (h.datafit(Dm.LogisticGroup, grp_ptr=grp_ptr, grp_indices=grp_idx) if group_datafit == 'LogisticGroup'
                 else h.datafit(Dm.Quadratic))
        ws = np.arange(len(lay))
        order = [j for g in ws for j in lay[g]]
    else:
        pen = h.penalty(Pm.L1, alpha=al)
        df_ls = h.datafit(Dm.Quadratic)
        ws = np.array([1, 0][:p], dtype=np.int64)
        order = [int(j) for j in ws]
    y = h.vec('y', n) if (not group or group_datafit != 'LogisticGroup') else h.const(np.array([1.0, -1.0, 1.0, -1.0][:n]))
    nw = p + (1 if fit_intercept else 0)
    w0 = h.vec('w', nw)
    b0 = w0[p] if fit_intercept else 0.0
    if h.mode == 'sym':
        Xw0 = h.arr([sum(Xc[i, j] * w0[j] for j in range(p) if Xc[i, j] != 0) + b0 for i in range(n)])
    else:
        Xw0 = Xc @ np.asarray(w0[:p], dtype=float) + b0
    k = len(order)
    delta = h.vec('d', k + (1 if fit_intercept else 0))
    if h.mode == 'sym':
        Xdelta = h.arr([sum(Xc[i, j] * delta[jj] for jj, j in enumerate(order) if Xc[i, j] != 0)
                        + (delta[k] if fit_intercept else 0.0) for i in range(n)])
    else:
        Xdelta = Xc[:, order] @ np.asarray(delta[:k], dtype=float) + (delta[k] if fit_intercept else 0.0)
    Xd = h.const(Xc)

    def F(wv, Xwv):
        return df_ls.value(y, h.arr([wv[j] for j in range(p)]), h.arr([Xwv[i] for i in range(n)])) + \
            pen.value(h.arr([wv[j] for j in range(p)]))
    F0 = F(w0, Xw0) if not group else None
    mod = gpn if group else pn
    if not h.unpatched:
        DR._patch_pn(h, 2, 2)
    try:
        w1 = w0.copy()
        Xw1 = Xw0.copy()
        g1 = mod._backtrack_line_search(Xd, y, w1, Xw1, fit_intercept, df_ls, pen, delta, Xdelta, ws)
        if not group:
            Xs = h.csc(Xd)
            w2 = w0.copy()
            Xw2 = Xw0.copy()
            g2 = pn._backtrack_line_search_s(Xs.data, Xs.indptr, Xs.indices, y, w2, Xw2, fit_intercept, df_ls, pen,
                                             delta, Xdelta, ws)
    finally:
        DR._patch_pn(h, None, None)
    for jj in range(nw):
        h.observe('w%d' % jj, w1[jj])
    b1 = w1[p] if fit_intercept else 0.0
    h.ensure('consistency', _consistent(h, Xc, w1, b1, Xw1))
    # same step for every moved quantity
    steps = [1.0, 0.5] if not h.unpatched else [2.0 ** -i for i in range(20)]
    if h.mode == 'sym':
        alt = h.false()
        for t in steps:
            c = h.true()
            for jj, j in enumerate(order):
                c = h.and_(c, h.eq(w1[j], w0[j] + t * delta[jj]))
            if fit_intercept:
                c = h.and_(c, h.eq(w1[p], w0[p] + t * delta[k]))
            alt = h.or_(alt, c)
        h.ensure('single-step-size-for-coefs-and-intercept', alt)
    else:
        ts = []
        for jj, j in enumerate(order):
            if delta[jj] != 0:
                ts.append((w1[j] - w0[j]) / delta[jj])
        if fit_intercept and delta[k] != 0:
            ts.append((w1[p] - w0[p]) / delta[k])
        h.ensure('single-step-size-for-coefs-and-intercept', (max(ts) - min(ts) <= 1e-9) if ts else True)
    F1 = F(w1, Xw1) if not group else None
    # the search either accepted (objective decreased, by convexity of the loss) or exhausted its halvings
    if h.mode == 'sym':
        moved_full = h.all_([h.eq(w1[j], w0[j] + delta[jj]) for jj, j in enumerate(order)])
        # accepted at the first trial <=> armijo-type test passed at t=1; in every case an accepted point decreases F.
        # A run that exhausts the (patched) budget ends at t = 1/2 without any guarantee: excluded by its own test.
        from vf.dual import tangent  # noqa
    rawg = df_ls.raw_grad(y, h.arr([Xw1[i] for i in range(n)]) if h.mode == 'sym' else Xw1)
    for jj, j in enumerate(order):
        ref = sum(Xc[i, j] * rawg[i] for i in range(n) if Xc[i, j] != 0)
        h.ensure('returned-gradient-is-fresh[%d]' % jj, h.eq(g1[jj], ref))
    # acceptance test recomputed by the harness at the final point
    lin = sum(g1[jj] * delta[jj] for jj in range(k))
    if fit_intercept:
        lin = lin + delta[k] * sum(rawg[i] for i in range(n))
    pen_diff = pen.value(h.arr([w1[j] for j in range(p)])) - pen.value(h.arr([w0[j] for j in range(p)]))
    for t in steps[:2]:
        at_t = h.all_([h.eq(w1[j], w0[j] + t * delta[jj]) for jj, j in enumerate(order)]) if h.mode == 'sym' else None
        if h.mode == 'sym' and not group:     # (logistic loss: descent needs convexity of exp/log, see C09 + lemma)
            accepted = h.and_(at_t, h.lt(pen_diff + t * lin, 0))
            h.ensure('accepted-step-decreases-objective[t=%s]' % t, h.implies(accepted, h.le(F1, F0)))
    # the documented test  pen(w + t d) - pen(w) + t * <grad f(w + t d), d> < 0  (intercept direction included) decides the
    # FIRST trial: when it holds at t = 1 the full step is taken (no spurious backtracking), and conversely
    if h.mode == 'sym' and not group:      # (LogisticGroup: the test contains exp atoms in denominators -- undecided in minutes)
        Xw_t = h.arr([Xw0[i] + Xdelta[i] for i in range(n)])
        rg_t = df_ls.raw_grad(y, Xw_t)
        if True:
            lin_t = sum(sum(Xc[i, j] * rg_t[i] for i in range(n) if Xc[i, j] != 0) * delta[jj] for jj, j in enumerate(order))
        if fit_intercept:
            lin_t = lin_t + delta[k] * sum(rg_t[i] for i in range(n))
        w_t = [w0[j] for j in range(p)]
        for jj, j in enumerate(order):
            w_t[j] = w0[j] + delta[jj]
        Q1 = pen.value(h.arr(w_t)) - pen.value(h.arr([w0[j] for j in range(p)])) + lin_t
        full = h.all_([h.eq(w1[j], w0[j] + delta[jj]) for jj, j in enumerate(order)]
                      + ([h.eq(w1[p], w0[p] + delta[k])] if fit_intercept else []))
        nontrivial = h.any_([h.ne(delta[jj], 0) for jj in range(len(delta))])
        h.ensure('full-step-taken-when-the-test-passes-at-t=1', h.implies(h.and_(h.lt(Q1, 0), nontrivial), full))
    if not group:
        same = h.true()
        for jj in range(nw):
            same = h.and_(same, h.eq(w2[jj], w1[jj]))
        for i in range(n):
            same = h.and_(same, h.eq(Xw2[i], Xw1[i]))
        for jj in range(k):
            same = h.and_(same, h.eq(g2[jj], g1[jj]))
        h.ensure('sparse==dense', same)


def u_extrapolate_contract(h, K=2, dim=2, nfit=2):
    """real AndersonAcceleration.extrapolate with numpy.linalg.solve -> arbitrary z: what it returns is an affine
    combination (coefficients summing to one) of the stored iterates, hence consistent whenever they are:
    Xw_acc == A w_acc + c0 for every linear map A and offset c0 (contract used by the method-level stub)."""
    from skglm.utils.anderson import AndersonAcceleration
    A = h.mat('A', nfit, dim)
    c0 = h.vec('c', nfit)
    acc = AndersonAcceleration(K)
    last = None
    for k in range(K + 2):
        wk = h.vec('w%d_' % k, dim)
        if h.mode == 'sym':
            Xwk = h.arr([sum(A[i, j] * wk[j] for j in range(dim)) + c0[i] for i in range(nfit)])
        else:
            Xwk = np.asarray(A) @ np.asarray(wk) + np.asarray(c0)
        last = acc.extrapolate(wk, Xwk)
        if k <= K:
            h.ensure('stores-without-extrapolating[%d]' % k, last[2] is False or last[2] == False)  # noqa
    w_acc, Xw_acc, is_ex = last
    ok = h.true()
    for i in range(nfit):
        ref = sum(A[i, j] * w_acc[j] for j in range(dim)) + c0[i]
        ok = h.and_(ok, h.eq(Xw_acc[i], ref))
    h.ensure('extrapolated-pair-consistent', ok)
    h.ensure('period-restarts', acc.current_iter == 0 if is_ex else True)


# --------------------------------------------------------------------------------------------------
def u_run(h, cfg, want=('buffer', 'descent', 'feasible', 'history')):
    """one bounded driver run with the post-conditions of C03/C04/C05/C17 at return"""
    if h.mode != 'sym' and getattr(h, 'rng', None) is not None:
        h._rng_state0 = h.rng.getstate()
    R = DR.run_driver(h, cfg)
    p, n = R.p, R.n
    w = [R.w[k] for k in range(len(R.w))]
    for k in range(len(w)):
        h.observe('w%d' % k, w[k])
    meta = R.meta
    if 'feasible' in want:
        h.ensure('feasible', h.all_([feasible(h, meta, w[j]) for j in range(p)]))
        h.ensure('finite-stop-crit-or-inf', True)
    if 'buffer' in want and R.Xw_init is not None and cfg['solver'] != 'GramCD':
        b = w[p] if R.fit_intercept else 0.0
        h.ensure('caller-buffer==Xw+b', _consistent(h, R.Xc, w, b, R.Xw_init))
        h.ensure('returns-caller-w', R.w is R.w_init)
    if 'acceptance' in want and h.mode == 'sym' and R.acc_seen is not None:
        # state right before the extrapolation call: working-set coordinates from the call arguments, the others
        # unchanged since the start of this (single) outer iteration
        seen = R.acc_seen
        solver = cfg['solver']
        wb = [R.w_start[k] for k in range(len(R.w_start))]
        if solver == 'AndersonCD':
            kws = len(seen['w_arg']) - (1 if R.fit_intercept else 0)
            ws = [int(v) for v in R.ws_captured[-kws:]]
            for jj, j in enumerate(ws):
                wb[j] = seen['w_arg'][jj]
            if R.fit_intercept:
                wb[p] = seen['w_arg'][-1]
        else:
            for k in range(len(seen['w_arg'])):
                wb[k] = seen['w_arg'][k]
        Fb = DR.objective(h, R, wb)
        Fr = DR.objective(h, R, w)
        if not _isinf(Fb):
            h.ensure('acceptance-never-increases-objective', h.false() if _isinf(Fr) else h.le(Fr, Fb))
    if 'descent' in want:
        F0 = DR.objective(h, R, R.w_start)
        F1 = DR.objective(h, R, w)
        if not _isinf(F0):
            h.ensure('objective-not-increased', h.false() if _isinf(F1) else h.le(F1, F0))
    if 'acceptance' in want and h.mode != 'sym':
        # concrete replay on the real accelerator: "non-increasing in the budget granted" -- the run that stops
        # right after the extrapolation must not end higher than the run that stops right before it
        F1 = float(DR.objective(h, R, w))
        key = 'max_iter_unpatched' if cfg['solver'] == 'GramCD' else 'max_epochs_unpatched'
        if cfg.get(key):
            st = np.random.get_state()
            cfg2 = dict(cfg)
            cfg2[key] = cfg[key] - 1
            # same inputs and same design: both are cached in h.values after the first run
            R2 = DR.run_driver(h, cfg2)
            Fprev = float(DR.objective(h, R2, [R2.w[k] for k in range(len(R2.w))]))
            h.ensure('acceptance-never-increases-objective', F1 <= Fprev + 1e-9 * (abs(Fprev) + 1))
        else:
            F0 = float(DR.objective(h, R, R.w_start))
            h.ensure('acceptance-never-increases-objective', F1 <= F0 + 1e-9 * (abs(F0) + 1))
    if 'history' in want:
        L = len(R.obj_out)
        h.ensure('history-length<=max_iter', L <= cfg['max_iter'])
        sc = R.stop_crit
        exhausted = h.not_(h.le(sc, R.tol))
        if h.mode == 'sym':
            if bool(exhausted):
                h.ensure('history-length==max_iter-when-exhausted', L == cfg['max_iter'])
        elif exhausted.strict:
            h.ensure('history-length==max_iter-when-exhausted', L == cfg['max_iter'])
        if L > 0:
            F1 = DR.objective(h, R, w)
            last = R.obj_out[L - 1]
            if cfg['solver'] == 'GramCD':
                pass
            if _isinf(F1) or _isinf(last):
                h.ensure('last-history-entry==objective', _isinf(F1) and _isinf(last))
            else:
                h.observe('last_obj', last)
                h.ensure('last-history-entry==objective', h.eq(last, F1))
            if L > 1 and 'descent' in want:
                mono = h.true()
                for k in range(L - 1):
                    if not _isinf(R.obj_out[k]) and not _isinf(R.obj_out[k + 1]):
                        mono = h.and_(mono, h.le(R.obj_out[k + 1], R.obj_out[k]))
                h.ensure('history-non-increasing', mono)
    return R
