"""C16 -- critical regularisation strength: null solution exactly from alpha_max (families K, D)."""
import itertools
import numpy as np

from checks.common import Unit, P, D, X_of, mk_sep_penalty
from checks import driver as DR
from vf.sym import _isinf

EXPLANATION = ("For every penalty defining alpha_max: for all gradients at the null model and all weights (zeros allowed and "
               "excluded from the maximum), alpha >= alpha_max(grad0) <=> the null vector has zero score on every penalised "
               "feature/group, and below it one real prox-gradient step from 0 yields a non-zero coefficient. Bounded real "
               "solver runs started at the null model (with the loss-minimising intercept) return exactly zero coefficients, "
               "keep the intercept and report stop_crit = 0 when alpha >= alpha_max, and move when alpha < alpha_max.")
ASSUMPTIONS = ["exact reals; p<=3; at least one positive weight; catalogue designs at solver level",
               "convergence to the null solution from a non-null start is unbounded and outside"]
BOUNDS = dict(quick="K: p=2,3; D: AndersonCD/GramCD/ProxNewton budgets (1,1)", thorough="more designs; GroupBCD")


def u_alpha_max_penalty(h, name, p=2, positive=False, zero_weight=None):
    Pm = P()
    A = h.real('alpha')
    h.assume(A > 0)
    kw = dict(alpha=A)
    wt = None
    if name in ('WeightedL1', 'WeightedMCPenalty'):
        wt = h.vec('wt', p)
        for k in range(p):
            h.assume(wt[k] >= 0)
        if zero_weight is not None:
            h.assume(h.eq(wt[zero_weight], 0))
        h.assume(h.any_([h.gt(wt[k], 0) for k in range(p)]))
        kw['weights'] = wt
    if name in ('MCPenalty', 'WeightedMCPenalty'):
        g = h.real('gamma')
        h.assume(g > 0)
        kw['gamma'] = g
    if name == 'L1_plus_L2':
        r = h.real('l1_ratio')
        h.assume(r > 0, r <= 1)
        kw['l1_ratio'] = r
    if name != 'SCAD':
        kw['positive'] = positive
    pen = h.penalty(getattr(Pm, name), **kw)
    g0 = h.vec('g0_', p)
    am = pen.alpha_max(g0)
    h.observe('alpha_max', am)
    w0 = h.arr([0.0] * p) if h.mode == 'sym' else np.zeros(p)
    sc = pen.subdiff_distance(w0, g0, np.arange(p))
    all_zero = h.true()
    for k in range(p):
        pen_k = h.true() if wt is None else h.gt(wt[k], 0)
        all_zero = h.and_(all_zero, h.implies(pen_k, h.eq(sc[k], 0)))
    if positive:
        # with positivity the null vector is optimal as soon as no coordinate wants to grow: alpha_max is only sufficient
        h.ensure('alpha>=alpha_max=>null-optimal', h.implies(h.ge(A, am), all_zero))
    else:
        h.ensure('alpha>=alpha_max<=>null-optimal', h.and_(h.implies(h.ge(A, am), all_zero),
                                                          h.implies(all_zero, h.ge(A, am))))
    # below alpha_max: one prox-gradient step from 0 (any positive curvature L, admissible for the penalty) moves
    if not positive:
        L = h.real('L')
        h.assume(L > 0)
        if 'gamma' in kw:
            for k in range(p):
                h.assume(kw['gamma'] * L > (wt[k] if wt is not None else 1))
        st = 1 / L
        moved = h.false()
        for k in range(p):
            pr = pen.prox_1d(0.0 - st * g0[k], st, k)
            pen_k = h.true() if wt is None else h.gt(wt[k], 0)
            moved = h.or_(moved, h.and_(pen_k, h.ne(pr, 0)))
        h.ensure('alpha<alpha_max=>first-step-non-zero', h.implies(h.lt(A, am), moved))


def u_alpha_max_group(h, X, layout, zero_weight=None):
    from skglm.utils.data import _alpha_max_group_lasso
    Xc = X_of(X)
    n, p = Xc.shape
    lay = DR.GROUP_LAYOUTS[layout]
    df, pen, meta = DR.mk_group_objects(h, 'QuadraticGroup', 'WeightedGroupL2', lay)
    wg = meta['wg']
    if zero_weight is not None:
        h.assume(h.eq(wg[zero_weight], 0))
    h.assume(h.any_([h.gt(wg[g], 0) for g in range(len(lay))]))
    y = h.vec('y', n)
    Xd = h.const(Xc)
    am = _alpha_max_group_lasso(Xd, y, pen.grp_indices, pen.grp_ptr, wg)
    if not _isinf(am):
        h.observe('alpha_max', am)
    h.ensure('finite', h.is_finite(am))
    if _isinf(am):
        return
    grad0 = h.arr([-sum(Xc[i, j] * y[i] for i in range(n)) / n for g in lay for j in g])
    w0 = h.arr([0.0] * p) if h.mode == 'sym' else np.zeros(p)
    sc = pen.subdiff_distance(w0, grad0, np.arange(len(lay)))
    all_zero = h.true()
    for g in range(len(lay)):
        all_zero = h.and_(all_zero, h.implies(h.gt(wg[g], 0), h.eq(sc[g], 0)))
    A = meta['alpha']
    h.ensure('alpha>=alpha_max<=>null-optimal', h.and_(h.implies(h.ge(A, am), all_zero),
                                                      h.implies(all_zero, h.ge(A, am))))


def u_null_run(h, solver, penalty, X, fit_intercept, below, p0=1, greedy=False):
    import skglm.solvers as S
    Xc = X_of(X)
    n, p = Xc.shape
    tol = h.real('tol')
    h.assume(tol > 0)
    pen, meta = mk_sep_penalty(h, penalty, p=p, concrete_hyper=True)
    if meta.get('weights') is not None:
        h.assume(h.any_([h.gt(meta['weights'][k], 0) for k in range(p)]))
        for k in range(p):
            h.assume(meta['weights'][k] > 0)        # the unpenalised part is handled by the intercept only here
    y = h.vec('y', n)
    ybar = sum(y[i] for i in range(n)) / n if fit_intercept else 0.0
    g0 = [-sum(Xc[i, j] * (y[i] - ybar) for i in range(n)) / n for j in range(p)]
    am = pen.alpha_max(h.arr(g0) if h.mode == 'sym' else np.array(g0, dtype=float))
    A = meta['alpha']
    if below:
        h.assume(A < am)
    else:
        h.assume(A >= am)
    nw = p + (1 if fit_intercept else 0)
    w0 = h.arr([0.0] * p + ([ybar] if fit_intercept else [])) if h.mode == 'sym' else np.array([0.0] * p + ([ybar] if fit_intercept else []), dtype=float)
    Xw0 = h.arr([ybar * 1.0 if fit_intercept else 0.0 for _ in range(n)]) if h.mode == 'sym' else np.full(n, float(ybar) if fit_intercept else 0.0)
    Xd = h.const(Xc)
    from skglm.datafits import Quadratic
    df = h.datafit(Quadratic)
    if solver == 'AndersonCD':
        sol = S.AndersonCD(max_iter=2, max_epochs=1, p0=p0, tol=tol, fit_intercept=fit_intercept)
        df.initialize(Xd, y)
        w, obj, sc = sol._solve(Xd, y, df, pen, w0, Xw0)
    elif solver == 'GramCD':
        sol = S.GramCD(max_iter=2, greedy_cd=greedy, tol=tol, fit_intercept=False)
        w, obj, sc = sol._solve(Xd, y, None, pen, w0[:p], None)
    elif solver == 'ProxNewton':
        DR._patch_pn(h, 2, 2)
        try:
            sol = S.ProxNewton(max_iter=2, max_pn_iter=1, p0=p0, tol=tol, fit_intercept=fit_intercept)
            w, obj, sc = sol._solve(Xd, y, df, pen, w0, Xw0)
        finally:
            DR._patch_pn(h, None, None)
    for k in range(nw):
        h.observe('w%d' % k, w[k])
    if not below:
        h.ensure('null-solution', h.all_([h.eq(w[k], 0) for k in range(p)]))
        if fit_intercept:
            h.ensure('optimal-intercept-kept', h.eq(w[p], ybar))
        h.ensure('stop_crit==0', h.eq(sc, 0))
    else:
        # (unless the null model is already tol-optimal and the solver stops before doing anything)
        if len(obj) == 0:
            h.ensure('moves-below-alpha_max', True)
        else:
            h.ensure('moves-below-alpha_max', h.any_([h.ne(w[k], 0) for k in range(p)]))


def u_null_multitask(h, fit_intercept, below, T=1, cold=False):
    """MultiTaskBCD from a cold start: for alpha >= alpha_max (computed at the null model with the optimal intercept) the
    coefficient rows stay exactly zero and a tolerance stop certifies the intercept as well"""
    import skglm.solvers as S
    Pm, Dm = P(), D()
    Xc = X_of('corr32')
    n, p = Xc.shape
    tol = h.real('tol')
    A = h.real('alpha')
    h.assume(tol > 0, A > 0)
    Y = h.mat('Y', n, T)
    ybar = [sum(Y[i, t] for i in range(n)) / n if fit_intercept else 0.0 for t in range(T)]
    # alpha_max = max_j || X_j^T (Y - ybar) || / n   (doc/tutorials/alpha_max.rst); T = 1: absolute value
    g0 = [[-sum(Xc[i, j] * (Y[i, t] - ybar[t]) for i in range(n)) / n for t in range(T)] for j in range(p)]
    from vf.shim import _smax
    am = None
    for j in range(p):
        nj = abs(g0[j][0])
        am = nj if am is None else (_smax(am, nj) if h.mode == 'sym' else max(am, nj))
    if below:
        h.assume(A < am)
    else:
        h.assume(A >= am)
    pen = h.penalty(Pm.L2_1, alpha=A)
    df = h.datafit(Dm.QuadraticMultiTask)
    sol = S.MultiTaskBCD(max_iter=2, max_epochs=1, p0=2, tol=tol, fit_intercept=fit_intercept, use_acc=False)
    # start at the null model (zero rows, loss-minimising intercept)
    rows = [[0.0] * T for _ in range(p)] + ([[ybar[t] for t in range(T)]] if fit_intercept else [])
    W0 = h.arr(rows) if h.mode == 'sym' else np.array(rows, dtype=float)
    XW0 = h.arr([[ybar[t] * 1.0 if fit_intercept else 0.0 for t in range(T)] for _ in range(n)]) if h.mode == 'sym' else \
        np.array([[float(ybar[t]) if fit_intercept else 0.0 for t in range(T)] for _ in range(n)])
    if cold:
        # cold start (zero intercept): whatever alpha, a tolerance stop must certify the intercept of every task
        W, obj, sc = sol._solve(h.const(Xc), Y, df, pen)
        h.observe('W0', W[0, 0])
        stopped = h.le(sc, tol)
        cert = h.true()
        for t in range(T):
            cert = h.and_(cert, h.le(abs(sum(Y[i, t] - sum(Xc[i, j] * W[j, t] for j in range(p)) - W[p, t] for i in range(n)) / n), tol))
        h.ensure('intercept-certified-on-stop', h.implies(stopped, cert))
        return
    W, obj, sc = sol._solve(h.const(Xc), Y, df, pen, W0, XW0)
    for j in range(p):
        h.observe('W%d' % j, W[j, 0])
    if not below:
        h.ensure('null-solution', h.all_([h.eq(W[j, t], 0) for j in range(p) for t in range(T)]))
        if fit_intercept:
            # a tolerance stop must certify the intercept too: |mean(Y - b)| <= tol per task
            stopped = h.le(sc, tol)
            cert = h.true()
            for t in range(T):
                cert = h.and_(cert, h.le(abs(ybar[t] - W[p, t]), tol))
            h.ensure('intercept-certified-on-stop', h.implies(stopped, cert))
    else:
        if len(obj) == 0:
            h.ensure('moves-below-alpha_max', True)
        else:
            h.ensure('moves-below-alpha_max', h.any_([h.ne(W[j, 0], 0) for j in range(p)]))


def units(tier):
    us = []
    q = tier == 'quick'
    for name in ('L1', 'L1_plus_L2', 'MCPenalty'):
        for pos in (False, True):
            us.append(Unit('C16/K/alpha_max[%s,positive=%s]' % (name, pos), u_alpha_max_penalty,
                           dict(name=name, p=2, positive=pos), wall_s=90))
    for name in ('WeightedL1', 'WeightedMCPenalty'):
        for pos in (False, True):
            for p, zw in ((2, None), (2, 0), (3, 2)) if not q else ((2, None), (2, 1), (3, 0)):
                us.append(Unit('C16/K/alpha_max[%s,positive=%s,p=%d,zero_weight=%s]' % (name, pos, p, zw), u_alpha_max_penalty,
                               dict(name=name, p=p, positive=pos, zero_weight=zw), wall_s=120))
    for X, lay in (('corr32', 'rev'), ('corr32', 'pair'), ('corr33', 'nc3')):
        for zw in (None, 0):
            if lay == 'pair' and zw == 0:
                continue
            us.append(Unit('C16/K/alpha_max_group_lasso[X=%s,layout=%s,zero_weight=%s]' % (X, lay, zw), u_alpha_max_group,
                           dict(X=X, layout=lay, zero_weight=zw), wall_s=120))
    runs = []
    for pen, X, fi, p0 in itertools.product(['L1', 'WeightedL1', 'L1_plus_L2', 'MCPenalty'], ['corr32', 'gen32'],
                                            (False, True), (1, 2)):
        if q and (X == 'gen32' or (p0 == 2 and pen != 'L1')):
            continue
        for below in (False, True):
            us.append(Unit('C16/D/AndersonCD[%s,X=%s,intercept=%s,p0=%d,below=%s]' % (pen, X, fi, p0, below), u_null_run,
                           dict(solver='AndersonCD', penalty=pen, X=X, fit_intercept=fi, below=below, p0=p0),
                           wall_s=120, timeout_ms=8000))
    for pen, greedy in itertools.product(['L1', 'WeightedL1'], (False, True)):
        for below in (False, True):
            us.append(Unit('C16/D/GramCD[%s,greedy=%s,below=%s]' % (pen, greedy, below), u_null_run,
                           dict(solver='GramCD', penalty=pen, X='corr32', fit_intercept=False, below=below, greedy=greedy),
                           wall_s=120, timeout_ms=8000))
    for fi in (False, True):
        for below in ((False,) if q else (False, True)):
            us.append(Unit('C16/D/MultiTaskBCD[intercept=%s,below=%s]' % (fi, below), u_null_multitask,
                           dict(fit_intercept=fi, below=below), wall_s=120 if q else 400, timeout_ms=8000))
    us.append(Unit('C16/D/MultiTaskBCD[cold-start,intercept=True]', u_null_multitask,
                   dict(fit_intercept=True, below=False, cold=True), wall_s=120, timeout_ms=8000))
    for fi in (False, True):
        for below in (False, True):
            us.append(Unit('C16/D/ProxNewton[L1,intercept=%s,below=%s]' % (fi, below), u_null_run,
                           dict(solver='ProxNewton', penalty='L1', X='corr32', fit_intercept=fi, below=below, p0=2),
                           wall_s=150, timeout_ms=8000, patched=True))
    # a regularisation path with an intercept: every grid point that reports convergence satisfies the variational inequality
    # of its own alpha -- for alpha >= alpha_max that IS the null model with the optimal intercept (C02's path unit re-used)
    from checks import c02
    us.append(Unit('C16/D/AndersonCD.path[L1,intercept=True]', c02.u_path_vi,
                   dict(penalty='L1', X='corr32', fit_intercept=True, sparse=False), wall_s=150, timeout_ms=8000))
    return us


MANIFEST = dict(
    claimed=True,
    level_text=("Bounded symbolic model checking: (K) for every penalty with alpha_max and for _alpha_max_group_lasso, for all "
                "null-model gradients, weights (zero weights allowed and excluded) and l1_ratio: alpha >= alpha_max <=> the "
                "real subdiff_distance at w=0 vanishes on every penalised feature/group, and alpha < alpha_max => one real "
                "prox-gradient step from 0 is non-zero; (D) the real AndersonCD / GramCD / ProxNewton drivers started at the null "
                "model (with the loss-minimising intercept) return exactly zero coefficients, the same intercept and "
                "stop_crit = 0 for every alpha >= alpha_max and every y, and return a non-zero coefficient for alpha < alpha_max."),
    level_note=("Exact reals; quadratic loss at solver level on catalogue designs, budgets (2,1); with positive=True alpha_max is "
                "only asserted to be sufficient. GroupBCD / MultiTaskBCD null-solution runs and convergence to the null "
                "solution from elsewhere (unbounded) are outside."),
)
