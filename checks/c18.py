"""C18 -- fitting is pure: inputs untouched, no state leaks between fits (families D, E)."""
import itertools
import numpy as np

from checks.common import Unit, X_of, P, D
from checks import driver as DR
from checks import estim as ES
from vf.sym import _isinf

EXPLANATION = ("Object arrays hold terms, so mutation is observable exactly. Histories of length 2: the real solver is run on "
               "problem A and then on problem B with the SAME datafit / penalty / solver objects, and on B with fresh objects; "
               "both results must be equal as terms for all data of A and B. After every solve / path / fit, X, y, weights, "
               "sample weights and the alpha grid must be element-for-element what they were. A fitted estimator refits from "
               "a cold start with freshly built components.")
ASSUMPTIONS = ["exact reals; catalogue designs (A and B use different matrices); budgets (1,1)",
               "numba's jitclass cache (lru_cache) and sklearn's copy semantics on real ndarrays are outside"]
BOUNDS = dict(quick="AndersonCD, ProxNewton, GramCD, GroupBCD; path with a 2-point grid; 2 estimators", thorough="more compositions")


def _snapshot(arr):
    a = np.asarray(arr, dtype=object) if not isinstance(arr, np.ndarray) else arr
    return [v for v in a.flat]


def _unchanged(h, name, arr, snap):
    cur = [v for v in (np.asarray(arr, dtype=object) if not isinstance(arr, np.ndarray) else arr).flat]
    ok = h.true() if len(cur) == len(snap) else h.false()
    for a, b in zip(cur, snap):
        if _isinf(a) or _isinf(b):
            continue
        ok = h.and_(ok, h.eq(a, b))
    h.ensure('%s-untouched' % name, ok)


def _attr_snapshot(obj, skip=()):
    """public attributes of a solver / datafit / penalty object: scalars by value, arrays element by element"""
    snap = {}
    try:
        items = list(vars(obj).items())
    except TypeError:                       # jitted replay: a jitclass instance exposes its fields through its numba type
        try:
            items = [(k, getattr(obj, k)) for k in obj._numba_type_.struct.keys()]
        except Exception:
            items = []
    for k, v in items:
        if k in skip or k.startswith('_'):
            continue
        if isinstance(v, np.ndarray):
            snap[k] = ('arr', _snapshot(v))
        elif isinstance(v, (bool, int, float, str, type(None))) or hasattr(v, 'z'):
            snap[k] = ('val', v)
    return snap


def _attrs_unchanged(h, name, obj, snap):
    ok = h.true()
    for k, (kind, old) in snap.items():
        cur = getattr(obj, k, None)
        if kind == 'arr':
            if not isinstance(cur, np.ndarray) or cur.size != len(old):
                ok = h.false()
                continue
            for a, b in zip(_snapshot(cur), old):
                if not (_isinf(a) or _isinf(b)):
                    ok = h.and_(ok, h.eq(a, b))
        elif isinstance(old, (str, type(None), bool)):
            ok = h.and_(ok, h.true() if (cur is old or cur == old) else h.false())
        elif _isinf(old) or _isinf(cur):
            ok = h.and_(ok, h.true() if (_isinf(old) and _isinf(cur)) else h.false())
        else:
            ok = h.and_(ok, h.eq(cur, old))
    h.ensure('%s-attributes-untouched' % name, ok)


def _mk(h, solver, tol, fit_intercept, weighted, datafit='Quadratic', sw=None):
    import skglm.solvers as S
    Pm, Dm = P(), D()
    al = h.real('alpha')
    h.assume(al > 0)
    if solver == 'GroupBCD':
        gp, gi = np.array([0, 1, 2], dtype=np.int32), np.array([1, 0], dtype=np.int32)
        wt = h.vec('wt', 2)
        h.assume(wt[0] >= 0, wt[1] >= 0)
        pen = h.penalty(Pm.WeightedGroupL2, alpha=al, weights=wt, grp_ptr=gp, grp_indices=gi)
        df = h.datafit(Dm.QuadraticGroup, grp_ptr=gp, grp_indices=gi)
        sol = S.GroupBCD(max_iter=1, max_epochs=1, p0=2, tol=tol, fit_intercept=fit_intercept)
        return df, pen, sol, wt
    wt = None
    if weighted:
        wt = h.vec('wt', 2)
        h.assume(wt[0] >= 0, wt[1] >= 0)
        pen = h.penalty(Pm.WeightedL1, alpha=al, weights=wt)
    else:
        pen = h.penalty(Pm.L1, alpha=al)
    df = h.datafit(Dm.Quadratic) if datafit == 'Quadratic' else h.datafit(Dm.WeightedQuadratic, sample_weights=sw)
    if solver == 'AndersonCD':
        sol = S.AndersonCD(max_iter=1, max_epochs=1, p0=2, tol=tol, fit_intercept=fit_intercept)
    elif solver == 'ProxNewton':
        sol = S.ProxNewton(max_iter=1, max_pn_iter=1, p0=2, tol=tol, fit_intercept=fit_intercept)
    elif solver == 'GramCD':
        sol = S.GramCD(max_iter=1, greedy_cd=False, tol=tol, fit_intercept=False)
        df = None
    return df, pen, sol, wt


def u_two_solves(h, solver, fit_intercept=False, weighted=False, XA='gen32', XB='corr32', datafit='Quadratic'):
    tol = h.real('tol')
    h.assume(tol > 0)
    A, B = X_of(XA), X_of(XB)
    sw = None
    if datafit == 'WeightedQuadratic':
        # catalogue sample weights (not summing to 1): symbolic weights make every residual a rational function of them
        sw = h.const(np.array([1.5, 1.0, 2.0, 0.5][:B.shape[0]]))
    # problem A only provides a history: its targets come from a catalogue (keeps the path count of the A-run small)
    yA, yB = h.const(np.array([1.0, -2.0, 0.5][:A.shape[0]])), h.vec('yB', B.shape[0])
    XAd, XBd = h.const(A), h.const(B)
    df, pen, sol, wt = _mk(h, solver, tol, fit_intercept, weighted, datafit, sw)
    snapXB, snapyB = _snapshot(XBd), _snapshot(yB)
    snapw = _snapshot(wt) if wt is not None else None
    snapsw = _snapshot(sw) if sw is not None else None
    snapsol, snappen = _attr_snapshot(sol), _attr_snapshot(pen)
    if solver in ('ProxNewton',):
        DR._patch_pn(h, 2, 2)
    try:
        if df is not None and hasattr(df, 'initialize'):
            df.initialize(XAd, yA)
        sol._solve(XAd, yA, df, pen)                        # history: a solve on other data first
        if df is not None and hasattr(df, 'initialize'):
            df.initialize(XBd, yB)
        w1, o1, s1 = sol._solve(XBd, yB, df, pen)
        w1 = [w1[k] for k in range(len(w1))]
        df2, pen2, sol2, _ = _mk(h, solver, tol, fit_intercept, weighted, datafit,
                                 h.arr(snapsw) if (sw is not None and h.mode == 'sym') else
                                 (np.array(snapsw, dtype=float) if sw is not None else None))     # fresh objects (same symbolic hyper-parameters)
        if df2 is not None and hasattr(df2, 'initialize'):
            df2.initialize(XBd, yB)
        w2, o2, s2 = sol2._solve(XBd, yB, df2, pen2)
    finally:
        DR._patch_pn(h, None, None)
    for k in range(len(w1)):
        h.observe('w%d' % k, w1[k])
        h.ensure('same-as-fresh-objects[coef %d]' % k, h.eq(w1[k], w2[k]))
    if not (_isinf(s1) or _isinf(s2)):
        h.ensure('same-as-fresh-objects[stop_crit]', h.eq(s1, s2))
    else:
        h.ensure('same-as-fresh-objects[stop_crit]', bool(_isinf(s1) and _isinf(s2)))
    h.ensure('same-as-fresh-objects[history]', len(o1) == len(o2))
    _unchanged(h, 'X', XBd, snapXB)
    _unchanged(h, 'y', yB, snapyB)
    if wt is not None:
        _unchanged(h, 'weights', pen.weights, snapw)
    if sw is not None:
        _unchanged(h, 'sample-weights', sw, snapsw)
    _attrs_unchanged(h, 'solver', sol, snapsol)
    _attrs_unchanged(h, 'penalty', pen, snappen)


def u_path_pure(h, fit_intercept, epochs=1):
    import skglm.solvers as S
    import skglm.solvers.anderson_cd as acd
    Pm, Dm = P(), D()
    Xc = X_of('corr32')
    n, p = Xc.shape
    tol = h.real('tol')
    a1, a2 = h.real('alpha1'), h.real('alpha2')
    h.assume(tol > 0, a1 > 0, a2 > 0)
    wt = h.vec('wt', p)
    h.assume(wt[0] >= 0, wt[1] >= 0)
    pen = h.penalty(Pm.WeightedL1, alpha=a1, weights=wt)
    df = h.datafit(Dm.Quadratic)
    y = h.vec('y', n)
    Xd = h.const(Xc)
    alphas = h.arr([a1, a2]) if h.mode == 'sym' else np.array([a1, a2], dtype=float)
    w_init = h.vec('wi', p + (1 if fit_intercept else 0))
    snaps = dict(X=_snapshot(Xd), y=_snapshot(y), weights=_snapshot(pen.weights), alphas=_snapshot(alphas),
                 w_init=_snapshot(w_init))
    sol = S.AndersonCD(max_iter=1, max_epochs=epochs, p0=1, tol=tol, fit_intercept=fit_intercept)
    snapsol = _attr_snapshot(sol)
    old = acd.check_array
    if h.mode == 'sym':
        acd.check_array = lambda a, *args, **kw: a
    try:
        res = sol.path(Xd, y, df, pen, alphas=alphas, w_init=w_init)
    finally:
        acd.check_array = old
    h.observe('c', res[1][0, 0])
    _unchanged(h, 'X', Xd, snaps['X'])
    _unchanged(h, 'y', y, snaps['y'])
    _unchanged(h, 'weights', pen.weights, snaps['weights'])
    _unchanged(h, 'alphas', alphas, snaps['alphas'])
    _unchanged(h, 'w_init', w_init, snaps['w_init'])
    _attrs_unchanged(h, 'solver', sol, snapsol)          # path() must not turn its bookkeeping into solver state


def u_refit(h, kind):
    """a fitted estimator (no warm start) refits on other data from a cold start with freshly built components"""
    import skglm
    n, p = 3, 2
    XA, XB = h.mat('XA', n, p), h.mat('XB', n, p)
    A = h.real('alpha')
    h.assume(A > 0)
    if kind == 'Lasso':
        yA, yB = h.vec('yA', n), h.vec('yB', n)
        est = skglm.Lasso(alpha=A, fit_intercept=True)
    else:
        yA, yB = np.array(['a', 'b', 'a']), np.array(['b', 'b', 'a'])
        est = skglm.SparseLogisticRegression(alpha=A, fit_intercept=True)
    snapXB = _snapshot(XB)

    def result(k, call):
        return ES.sym_result(h, p + 1, tag='c%d_' % k)
    with ES.sklearn_stubs(h):
        with ES.intercept_solve(h, result) as cap:
            ES.compat(est).fit(XA, yA)
            est.fit(XB, yB)
    h.ensure('two-solves', len(cap.calls) == 2)
    c1, c2 = cap.calls
    cold = h.true()
    for k in range(len(c2['w_init'])):
        cold = h.and_(cold, h.eq(c2['w_init'][k], 0))
    for i in range(n):
        cold = h.and_(cold, h.eq(c2['Xw_init'][i], 0))
    h.ensure('second-fit-starts-cold', cold)
    h.ensure('fresh-components', c1['datafit'] is not c2['datafit'] and c1['penalty'] is not c2['penalty']
             and c1['solver'] is not c2['solver'])
    same = h.true()
    for i in range(n):
        for j in range(p):
            same = h.and_(same, h.eq(c2['X'][i, j], XB[i, j]))
    h.ensure('second-fit-sees-its-own-data', same)
    _unchanged(h, 'X', XB, snapXB)
    h.observe('x', c2['w_init'][0] + 1)


def u_pdcd_dual_init(h):
    """PDCD_WS started from a user dual point: the user's array is not touched, and a second solve through the same solver
    object returns what the first one returned"""
    from skglm.experimental.pdcd_ws import PDCD_WS
    from skglm.experimental.quantile_regression import Pinball
    Pm = P()
    Xc = X_of('corr32')
    n, p = Xc.shape
    y = h.const(np.array([1.0, -2.0, 0.5][:n]))           # (catalogue targets; the dual start is symbolic)
    al = h.constant(0.25)
    # the dual start comes from a catalogue too: the whole run is then one exact path (symbolic starts did not finish within
    # minutes); aliasing of the user's array is a property of the code path, not of the values
    z0 = h.const(np.array([0.5, -0.25, 0.125][:n]))
    h.observe('probe', 1.0)
    snap = _snapshot(z0)
    pen = h.penalty(Pm.L1, alpha=al)
    df = h.datafit(Pinball, quantile_level=h.constant(0.5))
    Xd = h.const(Xc)
    sol = PDCD_WS(max_iter=1, max_epochs=1, p0=2, tol=1e-9, dual_init=z0)
    w1, o1, s1 = sol._solve(Xd, y, df, pen)
    w1 = [w1[k] for k in range(len(w1))]
    _unchanged(h, 'dual_init', z0, snap)
    w2, o2, s2 = sol._solve(Xd, y, df, pen)
    for k in range(len(w1)):
        h.observe('w%d' % k, w1[k])
        h.ensure('second-solve-returns-the-same[coef %d]' % k, h.eq(w2[k], w1[k]))


def u_group_indices_pure(h, sparse):
    """the group index arrays handed to the group datafit / penalty (here in a non-sorted order) are read-only for the
    datafit's constants and for a GroupBCD solve"""
    import skglm.solvers as S
    import skglm.datafits.group as GRP
    Pm, Dm = P(), D()
    Xc = X_of('corr33')
    n, p = Xc.shape
    gp = np.array([0, 2, 3], dtype=np.int32)
    gi = np.array([2, 0, 1], dtype=np.int32)            # group 0 = features (2, 0): not in increasing order
    snap_gi, snap_gp = [int(v) for v in gi], [int(v) for v in gp]
    al = h.real('alpha')
    h.assume(al > 0)
    y = h.vec('y', n)
    df = h.datafit(Dm.QuadraticGroup, grp_ptr=gp, grp_indices=gi)
    pen = h.penalty(Pm.WeightedGroupL2, alpha=al, weights=h.const(np.array([1.0, 0.5])), grp_ptr=gp, grp_indices=gi)
    Xd = h.const(Xc)
    Xa = h.csc(Xd) if sparse else Xd
    real_sn = GRP.spectral_norm if hasattr(GRP, 'spectral_norm') else None
    if real_sn is not None and not getattr(h, 'unpatched', False):
        GRP.spectral_norm = lambda *a, **k: real_sn(*a, max_iter=1)        # (power method bounded: its accuracy is C09's subject)
    try:
        if sparse:
            # (the CSC block constants are where the index arrays are sliced; a whole solve adds nothing for this obligation)
            df.get_lipschitz_sparse(Xa.data, Xa.indptr, Xa.indices, y)
        else:
            sol = S.GroupBCD(max_iter=1, max_epochs=0, p0=2, tol=1e-9, fit_intercept=False)
            w, obj, sc = sol._solve(Xa, y, df, pen)
    finally:
        if real_sn is not None:
            GRP.spectral_norm = real_sn
    h.observe('probe', 1.0)
    h.ensure('grp_indices-untouched', [int(v) for v in gi] == snap_gi and [int(v) for v in df.grp_indices] == snap_gi
             and [int(v) for v in pen.grp_indices] == snap_gi)
    h.ensure('grp_ptr-untouched', [int(v) for v in gp] == snap_gp)


def units(tier):
    us = []
    q = tier == 'quick'
    for solver, fi, wtd in (('AndersonCD', False, False), ('AndersonCD', False, True), ('GramCD', False, True),
                            ('GroupBCD', False, False), ('AndersonCD', True, 'wq')) + \
            ((('AndersonCD', True, True), ('ProxNewton', False, False), ('ProxNewton', True, True), ('GroupBCD', True, False))
             if not q else ()):
        us.append(Unit('C18/D/two-solves[%s,intercept=%s,weighted=%s]' % (solver, fi, wtd), u_two_solves,
                       dict(solver=solver, fit_intercept=fi, weighted=wtd is True, datafit='WeightedQuadratic' if wtd == 'wq' else 'Quadratic'), wall_s=150, max_paths=6000, timeout_ms=8000,
                       patched=solver == 'ProxNewton'))
    for fi in (False, True):
        us.append(Unit('C18/D/path-inputs-untouched[intercept=%s]' % fi, u_path_pure, dict(fit_intercept=fi, epochs=0 if q else 1), wall_s=150,
                       max_paths=6000, timeout_ms=8000))
    for kind in ('Lasso', 'SparseLogisticRegression'):
        us.append(Unit('C18/E/refit[%s]' % kind, u_refit, dict(kind=kind), wall_s=60))
    # (u_pdcd_dual_init is kept for reference but not registered: PDCD_WS's step sizes are irrational algebraic numbers and
    #  its runs do not finish in the engine within minutes, even on catalogue data)
    for sp in (False, True):
        us.append(Unit('C18/D/group-index-arrays-untouched[sparse=%s]' % sp, u_group_indices_pure, dict(sparse=sp), wall_s=120,
                       timeout_ms=8000, patched=sp))
    return us


MANIFEST = dict(
    claimed=True,
    level_text=("Bounded symbolic model checking of purity: two-solve histories (solve on A, then on B with the same datafit / "
                "penalty / solver objects) return, term for term and for all data of A and B, what fresh objects return on B "
                "(AndersonCD, ProxNewton, GramCD, GroupBCD); X, y, penalty weights, the alpha grid and w_init are element-for-"
                "element unchanged after solve and after the real path(); a fitted estimator refits on other data from a cold "
                "start with freshly built components and sees only its own data."),
    level_note=("Exact reals; catalogue designs; budgets (1,1); path grid length 2. penalty.alpha is rewritten by path() by "
                "design (not an array argument). Outside: numba's jitclass cache, sklearn copy= behaviour on real ndarrays, "
                "IterativeReweightedL1's internal weights, longer histories (induction on 'same as fresh')."),
)
