"""C03 -- monotone descent under every budget; extrapolation never hurts (families S, D)."""
import itertools

from checks.common import Unit
from checks import driver as DR
from checks import steps as ST
from checks.steps import dh

EXPLANATION = ("Single real primitive steps (coordinate, Gram coordinate sweep, intercept update) from an arbitrary feasible "
               "consistent state never increase the true objective recomputed from w alone; bounded driver runs return an "
               "objective no larger than at the start with a non-increasing history; with the Anderson period patched to K=2 "
               "the real extrapolate + acceptance code is reached and the same holds for every linalg.solve result.")
ASSUMPTIONS = ["exact reals; non-convex penalties inside their well-posed range (gamma > 1/L_j, SCAD gamma-1 > 1/L_j)",
               "K-level: real extrapolate with numpy.linalg.solve replaced by an arbitrary vector z with sum(z) != 0 or LinAlgError",
               "D-level: AndersonAcceleration replaced by a contract stub (arbitrary pair consistent w.r.t. its call arguments) "
               "pre-loaded to fire at epoch 1 or 2; counterexamples are confirmed on the real accelerator (K=5, >=7 epochs) "
               "before reporting"]
BOUNDS = dict(quick="catalogue X n<=3,p<=2; budgets (2,1) cold; K=2 acceptance on a 1-feature design with intercept",
              thorough="more compositions, budgets (2,2), K=2 acceptance on 2 features")


def units(tier):
    us = []
    q = tier == 'quick'
    # one real GroupBCD block step with the datafit's own block constant never increases the objective (singleton groups in
    # reversed order: the constant must belong to the group's FEATURE, not to its position)
    for X in ('gen32', 'corr32'):
        for g in (0, 1):
            us.append(Unit('C03/S/group_step[QuadraticGroup,layout=rev,X=%s,g=%d]' % (X, g), ST.u_group_step,
                           dict(datafit='QuadraticGroup', layout='rev', X=X, g=g, descent=True), wall_s=90, timeout_ms=8000))
    comps = [('Quadratic', 'L1'), ('Quadratic', 'L1+'), ('Quadratic', 'WeightedL1'), ('Quadratic', 'L1_plus_L2'),
             ('Quadratic', 'L1_plus_L2+'), ('Quadratic', 'MCPenalty'), ('Quadratic', 'MCPenalty+'), ('Quadratic', 'SCAD'),
             ('Quadratic', 'WeightedMCPenalty'), ('Quadratic', 'IndicatorBox'), ('Quadratic', 'PositiveConstraint'),
             ('WeightedQuadratic', 'L1'), ('Huber', 'L1'), ('QuadraticSVC', 'IndicatorBox')]
    for (df, pen), X in itertools.product(comps, ['corr32', 'gen32'] if q else ['corr32', 'gen32', 'dup32', 'scale32']):
        for j in (0, 1):
            for fi in (False, True):
                if df == 'QuadraticSVC' and fi:
                    continue
                if X == 'scale32' and (df == 'QuadraticSVC' or pen.rstrip('+') in ('MCPenalty', 'WeightedMCPenalty', 'SCAD')):
                    # tiny column: the catalogue gamma is outside the well-posed range of the non-convex penalties (the unit
                    # would be vacuous); the SVC design (y*X)^T with the 2^-10 column gave symbolic sparse/dense mismatches
                    # that no concrete run reproduces (an engine-side constant issue, not a finding): left out
                    continue
                if q and dh((df, pen, X, j, fi)) % 3:
                    continue
                Xn = 'orth22' if df == 'Huber' else X
                if q and df == 'Huber':
                    continue     # piecewise-quadratic descent query: unknown at the quick time-out (thorough tier)
                us.append(Unit('C03/S/cd_step[%s,%s,X=%s,j=%d,intercept=%s]' % (df, pen, Xn, j, fi), ST.u_cd_step,
                               dict(datafit=df, penalty=pen, X=Xn, j=j, fit_intercept=fi, descent=True), wall_s=90,
                               timeout_ms=10000))
    for df, X in (('Quadratic', 'corr32'), ('WeightedQuadratic', 'gen32'), ('Huber', 'orth22')):
        us.append(Unit('C03/S/intercept_step[%s,X=%s]' % (df, X), ST.u_intercept_step, dict(datafit=df, X=X), wall_s=90))
    for pen, X in itertools.product(['L1', 'L1+', 'WeightedL1', 'IndicatorBox'] + ([] if q else ['MCPenalty']), ['corr32', 'gen32']):
        for greedy in (False, True):
            if q and dh((pen, X, greedy)) % 2:
                continue
            us.append(Unit('C03/S/gram_step[%s,X=%s,greedy=%s]' % (pen, X, greedy), ST.u_gram_step,
                           dict(penalty=pen, X=X, greedy=greedy), wall_s=90, timeout_ms=8000))
    runs = []
    cold = [('L1', False, 1), ('WeightedL1', False, 1), ('L1', True, 2)] if q else \
        [(pen, fi, p0) for pen in ('L1', 'WeightedL1', 'L1_plus_L2+') for fi in (False, True) for p0 in (1, 2)]
    for pen, fi, p0 in cold:
        runs.append(dict(solver='AndersonCD', datafit='Quadratic', penalty=pen, X='corr32', max_iter=2, max_epochs=1, p0=p0,
                         fit_intercept=fi, ws_strategy='subdiff', warm=False))
    runs.append(dict(solver='GramCD', datafit='Quadratic', penalty='L1', X='corr32', max_iter=2, greedy_cd=False, warm=False,
                     fit_intercept=False))
    if not q:
        runs.append(dict(solver='GramCD', datafit='Quadratic', penalty='L1', X='gen32', max_iter=2, greedy_cd=True, warm=True,
                         fit_intercept=False))
    # extrapolation acceptance: method-level contract stub pre-loaded to fire at the first (second: thorough) epoch
    acc = [('L1', False, 1), ('L1+', False, 1)] if q else \
        [(pen, fi, fire) for pen in ('L1', 'L1+', 'WeightedL1', 'MCPenalty', 'L1_plus_L2') for fi in (False, True)
         for fire in (1, 2)]
    for pen, fi, fire in acc:
        runs.append(dict(solver='AndersonCD', datafit='Quadratic', penalty=pen, X='corr32', max_iter=1, max_epochs=fire,
                         max_epochs_unpatched=7, acc_stub=fire, p0=2, fit_intercept=fi, ws_strategy='subdiff', warm=True))
    runs.append(dict(solver='GramCD', datafit='Quadratic', penalty='L1', X='corr32', max_iter=1, max_iter_unpatched=7,
                     acc_stub=1, use_acc=True, greedy_cd=False, warm=True, fit_intercept=False))
    # two outer iterations with a one-feature working set that changes in between, an extrapolation proposed in each:
    # state kept across outer iterations (accelerator buffers) must not leak into the accepted point
    runs.append(dict(solver='AndersonCD', datafit='Quadratic', penalty='L1', X='corr33', max_iter=2, max_epochs=1,
                     max_epochs_unpatched=7, acc_stub=1, p0=1, fit_intercept=False, ws_strategy='subdiff', warm=True,
                     w0_concrete=[2.0, 0.0, 0.0], ylabels=[1.0, -2.0, 3.0], acc_catalogue=[1.0, -0.5, 0.0], two_iter=True))
    for c in runs:
        cid = ','.join('%s=%s' % (k, c[k]) for k in sorted(c))
        us.append(Unit('C03/D/run[%s]' % cid, ST.u_run, dict(cfg=c, want=(('history',) if c.get('two_iter') else ('acceptance',)) if c.get('acc_stub') else ('descent', 'history')), wall_s=150, max_paths=5000,
                       timeout_ms=8000, patched=bool(c.get('K') or c.get('acc_stub'))))
    for K, dim in ((2, 2), (2, 3)) if q else ((2, 2), (2, 3), (3, 2)):
        us.append(Unit('C03/K/extrapolate-contract[K=%d,dim=%d]' % (K, dim), ST.u_extrapolate_contract,
                       dict(K=K, dim=dim, nfit=2), wall_s=90))
    for X, fi in (('corr32', False), ('corr32', True), ('gen32', True)):
        us.append(Unit('C03/S/pn_linesearch[X=%s,intercept=%s]' % (X, fi), ST.u_pn_linesearch, dict(X=X, fit_intercept=fi),
                       wall_s=120, timeout_ms=8000, patched=True))
    for fi in (False, True):
        us.append(Unit('C03/S/group_pn_linesearch[intercept=%s]' % fi, ST.u_pn_linesearch,
                       dict(X='corr32', fit_intercept=fi, group=True), wall_s=120, timeout_ms=8000, patched=True))
    # MultiTaskBCD's inline Anderson step (one task, 6 epochs): see the unit's docstring
    for fi, sp in ((False, False), (True, False), (True, True)):
        us.append(Unit('C03/D/MultiTaskBCD-extrapolation[intercept=%s,sparse=%s]' % (fi, sp), ST.u_multitask_acc,
                       dict(fit_intercept=fi, sparse=sp), wall_s=150, max_paths=3000, timeout_ms=8000, patched=True))
    # reweighting (IterativeReweightedL1) decreases the objective only if the weights are the derivative of the concave function
    # at |w| (tangent majoriser): C11's weight obligations re-used; and the CSC column slicing behind the sparse group constants
    # (a wrong block constant turns a block step into an ascent step): C09's unit re-used
    from checks import c11, c09
    for pn in ('L0_5', 'LogSumPenalty'):
        us.append(Unit('C03/K/reweighting-weights[%s]' % pn, c11.u_reweight_weights, dict(pen_name=pn), wall_s=60, timeout_ms=8000))
    for pat, cols in (([[1, 0, 1], [1, 0, 1], [0, 0, 1]], [0, 1, 2]), ([[1, 0, 1], [1, 0, 0], [0, 0, 1]], [1, 2])):
        us.append(Unit('C03/K/sparse_columns_slice[pattern=%s,cols=%s]' % (''.join(str(v) for r in pat for v in r), cols),
                       c09.u_sparse_slice, dict(pattern=pat, cols=cols), wall_s=60))
    return us


MANIFEST = dict(
    claimed=True,
    level_text=("Bounded symbolic model checking: (S) one real coordinate step of _cd_epoch, one real _gram_cd_epoch sweep and "
                "the intercept update, from an arbitrary feasible consistent state, never increase the true objective "
                "(recomputed from w alone) for all data/hyper-parameters in the well-posed range -- covers every budget and "
                "stopping point by induction; (D) bounded cold-start runs have a non-increasing history and end no higher than "
                "they started; with the Anderson period patched to 2 the real extrapolate + acceptance code runs and the "
                "objective still does not increase for EVERY result of the linear solve."),
    level_note=("Exact reals; catalogue matrices; gamma/l1_ratio from a catalogue at this level; K=5 -> 2 patch and stubbed "
                "numpy.linalg.solve (any z with sum != 0, or LinAlgError); counterexamples from patched runs are reported only "
                "if a run with the unpatched constants reproduces them. Group/multitask epochs, prox-Newton line search and "
                "iterative reweighting majorisation are not covered yet (Logistic/Poisson coordinate descent relies on the "
                "curvature bounds of C09 + Taylor's theorem)."),
)
