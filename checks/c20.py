"""C20 -- compiled kernels stay inside their arrays (families D, K)."""
import itertools
import numpy as np

from checks.common import Unit, X_of, P, D, mk_sep_penalty
from checks import driver as DR
from checks import steps as ST
from checks.steps import dh
from vf.sym import _isinf

EXPLANATION = ("Every array access of every explored path goes through numpy's own index and broadcasting checks (object "
               "arrays): the semantics NUMBA_BOUNDSCHECK=1 enforces. Bounded runs of the real drivers over accepted "
               "compositions with 3 features / non-contiguous groups / 2 tasks, with and without intercept, weighted "
               "penalties with exactly p weights: no feasible path raises IndexError or a broadcasting ValueError. "
               "Counterexamples are replayed on the jitted build under NUMBA_BOUNDSCHECK=1.")
ASSUMPTIONS = ["exact reals; python negative-index wrap-around is legal indexing (semantic slips through it are caught by "
               "C03/C05/C17)", "the 'same result as the unchecked run' half is a statement about native memory, observed only in replays"]
BOUNDS = dict(quick="p=3 (corr33, zero_mid33), budgets (1,1)/(2,1), all solvers", thorough="more layouts and penalties")


def u_run(h, cfg):
    if cfg.get('expect_F24'):
        h.expect_exc('F24', IndexError)
    R = DR.run_driver(h, cfg)
    for k in range(len(R.w)):
        h.observe('w%d' % k, R.w[k])
        h.ensure('finite[%d]' % k, h.is_finite(R.w[k]))
    h.ensure('coef-length', len(R.w) == R.p + (1 if R.fit_intercept else 0))


def u_f24(h):
    """AndersonCD accepts QuadraticGroup (it has get_lipschitz and gradient_scalar) but reads lc[j] per FEATURE from
    a per-GROUP array"""
    import skglm.solvers as S
    Pm, Dm = P(), D()
    Xc = X_of('corr33')
    n, p = Xc.shape
    h.expect_exc('F24', IndexError)
    al = h.real('alpha')
    h.assume(al > 0)
    y = h.vec('y', n)
    gp, gi = np.array([0, 2, 3], dtype=np.int32), np.array([0, 2, 1], dtype=np.int32)
    df = h.datafit(Dm.QuadraticGroup, grp_ptr=gp, grp_indices=gi)
    pen = h.penalty(Pm.L1, alpha=al)
    sol = S.AndersonCD(max_iter=1, max_epochs=1, p0=3, fit_intercept=False)
    Xd = h.const(Xc)
    w, obj, sc = sol.solve(Xd, y, df, pen)
    h.observe('w0', w[0])
    h.ensure('finite', h.is_finite(w[0]))


def u_multitask(h, X, fit_intercept, sparse, T=2, max_iter=2):
    import skglm.solvers as S
    Pm, Dm = P(), D()
    Xc = X_of(X)
    n, p = Xc.shape
    tol = h.real('tol')
    h.assume(tol > 0)
    if T == 1:
        al = h.real('alpha')
        h.assume(al > 0)
        Y = h.mat('Y', n, T)
    else:
        # two tasks: row norms of symbolic rows are nested square roots; data and alpha from a catalogue, tol symbolic
        al = h.constant(0.25)
        Y = h.const(np.array([[1.0, -2.0], [0.0, 1.0], [3.0, 1.0]])[:n, :T])
    pen = h.penalty(Pm.L2_1, alpha=al)
    df = h.datafit(Dm.QuadraticMultiTask)
    Xd = h.const(Xc)
    Xa = h.csc(Xd) if sparse else Xd
    sol = S.MultiTaskBCD(max_iter=max_iter, max_epochs=1, p0=1, tol=tol, fit_intercept=fit_intercept, use_acc=False)
    W, obj, sc = sol._solve(Xa, Y, df, pen)
    h.ensure('shape', W.shape == (p + (1 if fit_intercept else 0), T))
    for j in range(W.shape[0]):
        for t in range(T):
            h.observe('W%d_%d' % (j, t), W[j, t])
            h.ensure('finite[%d,%d]' % (j, t), h.is_finite(W[j, t]))


def u_ws_kernel(h, penalty, ws, layout=None):
    """penalty.subdiff_distance / generalized_support on a working set that is a strict subset of the features (groups):
    the ws-restricted gradient is addressed by ws POSITION, w by FEATURE index; no out-of-range read, and the
    restricted scores are the full-problem scores at the ws positions"""
    p = 3
    if layout is None:
        pen, meta = mk_sep_penalty(h, penalty, p=p, concrete_hyper=True)
        n_units = p
    else:
        df_, pen, meta = DR.mk_group_objects(h, 'QuadraticGroup', penalty.rstrip('+'), layout, positive=penalty.endswith('+'))
        gp = np.cumsum([0] + [len(g) for g in layout])
        gi = np.array([i for g in layout for i in g])
        n_units = len(layout)
    w = h.vec('w', p)
    if meta.get('positive') and not meta.get('group'):
        pass                                                  # infeasible w is a legal argument (score = inf)
    ws = np.array(ws, dtype=np.int64)
    if meta.get('group') or layout is not None:
        sizes = [int(gp[g + 1] - gp[g]) for g in range(n_units)]
        gfull = h.vec('g', p)
        # ws-restricted gradient: concatenation of the groups' blocks in ws order
        g_ws = []
        for g in ws:
            g_ws += [gfull[int(j)] for j in gi[gp[g]:gp[g + 1]]]
        g_all = []
        for g in range(n_units):
            g_all += [gfull[int(j)] for j in gi[gp[g]:gp[g + 1]]]
        mk = (lambda v: h.arr(v)) if h.mode == 'sym' else (lambda v: np.array(v, dtype=float))
        r_ws = pen.subdiff_distance(w, mk(g_ws), ws)
        r_all = pen.subdiff_distance(w, mk(g_all), np.arange(n_units))
    else:
        gfull = h.vec('g', p)
        mk = (lambda v: h.arr(v)) if h.mode == 'sym' else (lambda v: np.array(v, dtype=float))
        r_ws = pen.subdiff_distance(w, mk([gfull[int(j)] for j in ws]), ws)
        r_all = pen.subdiff_distance(w, mk([gfull[j] for j in range(p)]), np.arange(p))
    h.observe('w0', w[0])
    h.ensure('score-length', len(r_ws) == len(ws))
    for idx, j in enumerate(ws):
        a, b = r_ws[idx], r_all[int(j)]
        if _isinf(a) or _isinf(b):
            h.ensure('restricted-score-is-full-score[%d]' % idx, bool(_isinf(a) and _isinf(b)))
        else:
            h.ensure('restricted-score-is-full-score[%d]' % idx, h.eq(a, b))


def u_global_lipschitz_sparse(h, name, shape):
    """get_global_lipschitz_sparse (power method on the CSC arrays) on tall AND wide designs with entries in the last row and
    the last column: the work vectors have the design's own dimensions (for QuadraticSVC the design is (y*X)^T, features
    x samples), no index leaves them, the result is finite and non-negative"""
    Dm = D()
    import skglm.datafits.single_task as STK
    real_sn = STK.spectral_norm
    if not getattr(h, 'unpatched', False):
        # power method bounded to ONE iteration (its accuracy is C09's subject; here only the buffers' sizes matter)
        STK.spectral_norm = lambda *a, **k: real_sn(*a, max_iter=1)
    try:
        return _u_global_lipschitz_sparse(h, Dm, name, shape)
    finally:
        STK.spectral_norm = real_sn


def _u_global_lipschitz_sparse(h, Dm, name, shape):
    # The index pattern of the power method depends only on the CSC structure and the declared row count, not on the
    # values: the arrays are plain float arrays here (one concrete path under numpy's own bounds checks); the symbolic
    # part of the unit is empty on purpose.
    import scipy.sparse as sp
    n, p = shape
    vals = np.array([[1.0, 2.0, -1.0], [0.5, 1.0, 3.0], [2.0, -1.0, 1.0]])[:n, :p]
    labels = np.array([1.0, -1.0, 1.0][:n])
    yv = np.array([0.5, -1.5, 2.0][:n])
    if name == 'QuadraticSVC':
        df = h.datafit(Dm.QuadraticSVC)
        Ms = sp.csc_matrix((labels[:, None] * vals).T.copy())      # (y * X)^T : p x n
        L = df.get_global_lipschitz_sparse(Ms.data, Ms.indptr, Ms.indices, labels)
    else:
        if name == 'Quadratic':
            df, y = h.datafit(Dm.Quadratic), yv
        elif name == 'WeightedQuadratic':
            df, y = h.datafit(Dm.WeightedQuadratic, sample_weights=np.array([1.0, 2.0, 0.5][:n])), yv
        elif name == 'Logistic':
            df, y = h.datafit(Dm.Logistic), labels
        elif name == 'Huber':
            df, y = h.datafit(Dm.Huber, delta=1.0), yv
        Xs = sp.csc_matrix(vals)
        L = df.get_global_lipschitz_sparse(Xs.data, Xs.indptr, Xs.indices, y)
    h.observe('probe', 1.0)
    h.ensure('finite-and-non-negative', bool(np.isfinite(float(L)) and float(L) >= 0))


def u_reinitialise(h, name, sparse):
    """one datafit object initialised on a small problem and then on a LARGER one (more features, same tasks/samples): every
    cached array has the new problem's size -- no out-of-range access, same gradients as a fresh object"""
    Dm = D()
    XA, XB = X_of('corr32'), X_of('corr33')
    n = 3
    mk = {'Quadratic': lambda: h.datafit(Dm.Quadratic), 'QuadraticMultiTask': lambda: h.datafit(Dm.QuadraticMultiTask),
          'WeightedQuadratic': lambda: h.datafit(Dm.WeightedQuadratic, sample_weights=h.const(np.array([1.0, 2.0, 0.5])))}[name]
    multi = name == 'QuadraticMultiTask'
    y = h.mat('Y', n, 2) if multi else h.vec('y', n)
    A, B = h.const(XA), h.const(XB)

    def init(df, M):
        if sparse:
            Ms = h.csc(M)
            df.initialize_sparse(Ms.data, Ms.indptr, Ms.indices, y)
            return Ms
        df.initialize(M, y)
        return M

    def grads(df, M, Ms):
        pB = XB.shape[1]
        if multi:
            W = h.mat('W', pB, 2)
            XW = h.arr([[sum(XB[i, k] * W[k, t] for k in range(pB) if XB[i, k] != 0) for t in range(2)] for i in range(n)]) \
                if h.mode == 'sym' else XB @ np.asarray(W, dtype=float)
            if sparse:
                return [v for j in range(pB) for v in df.gradient_j_sparse(Ms.data, Ms.indptr, Ms.indices, y, XW, j)]
            return [v for j in range(pB) for v in df.gradient_j(M, y, W, XW, j)]
        w = h.vec('w', pB)
        Xw = h.arr([sum(XB[i, k] * w[k] for k in range(pB) if XB[i, k] != 0) for i in range(n)]) if h.mode == 'sym' \
            else XB @ np.asarray(w, dtype=float)
        if sparse:
            return [df.gradient_scalar_sparse(Ms.data, Ms.indptr, Ms.indices, y, Xw, j) for j in range(pB)]
        return [df.gradient_scalar(M, y, w, Xw, j) for j in range(pB)]
    d1 = mk()
    init(d1, A)
    Ms1 = init(d1, B)
    g1 = grads(d1, B, Ms1)
    d2 = mk()
    Ms2 = init(d2, B)
    g2 = grads(d2, B, Ms2)
    h.observe('g', g1[0])
    same = h.true()
    for a, b in zip(g1, g2):
        same = h.and_(same, h.eq(a, b))
    h.ensure('same-gradients-as-a-fresh-object', same)


def units(tier):
    us = []
    q = tier == 'quick'
    runs = []
    for (df, pen), X, fi, sparse in itertools.product([('Quadratic', 'WeightedL1'), ('Quadratic', 'L1'), ('WeightedQuadratic', 'WeightedL1+')]
                                                        + ([] if q else [('Quadratic', 'WeightedMCPenalty')]),
                                                        ['corr33', 'zero_mid33'], (False, True), (False, True)):
        if q and dh((df, pen, X, fi, sparse)) % 4:
            continue
        runs.append(dict(solver='AndersonCD', datafit=df, penalty=pen, X=X, max_iter=1, max_epochs=1, p0=2,
                         fit_intercept=fi, ws_strategy='subdiff' if sparse else 'fixpoint', warm=False, sparse=sparse))
    for pen, fi, sparse in itertools.product(['L1', 'WeightedL1'], (False, True), (False, True)):
        if q and (dh((pen, fi, sparse)) % 2 or (pen == 'WeightedL1' and fi)):
            continue
        runs.append(dict(solver='ProxNewton', datafit='Quadratic', penalty=pen, X='corr33', max_iter=1, max_pn_iter=1, p0=2,
                         fit_intercept=fi, ws_strategy='subdiff', warm=False, sparse=sparse))
    for pen, greedy in itertools.product(['WeightedL1', 'L1'], (False, True)):
        runs.append(dict(solver='GramCD', datafit='Quadratic', penalty=pen, X='corr33', max_iter=1, greedy_cd=greedy, warm=False,
                         fit_intercept=False))
    for lay, fi, pos in itertools.product(['nc3', 'rev'], (False, True), (False, True)):
        X = 'corr33' if lay == 'nc3' else 'corr32'
        if q and dh((lay, fi, pos)) % 2:
            continue
        runs.append(dict(solver='GroupBCD', datafit='QuadraticGroup', penalty='WeightedGroupL2' + ('+' if pos else ''), X=X,
                         layout=lay, max_iter=1, max_epochs=1, p0=1, fit_intercept=fi, ws_strategy='subdiff', warm=False))
    for lay, fi in (itertools.product(['nc3', 'rev'], (False, True)) if not q else [('nc3', False)]):
        X = 'corr33' if lay == 'nc3' else 'corr32'
        runs.append(dict(solver='GroupProxNewton', datafit='LogisticGroup', penalty='WeightedGroupL2', X=X, layout=lay,
                         max_iter=1, max_pn_iter=1, p0=2, fit_intercept=fi, warm=False))
    for c in runs:
        cid = ','.join('%s=%s' % (k, c[k]) for k in sorted(c))
        us.append(Unit('C20/D/run[%s]' % cid, u_run, dict(cfg=c), wall_s=150, max_paths=3000, timeout_ms=8000,
                       patched=c['solver'] in ('ProxNewton', 'GroupProxNewton')))
    for X, fi, sparse, T in itertools.product(['corr33', 'corr32'], (False, True), (False, True), (1, 2)):
        us.append(Unit('C20/D/multitask[X=%s,intercept=%s,sparse=%s,T=%d]' % (X, fi, sparse, T), u_multitask,
                       dict(X=X, fit_intercept=fi, sparse=sparse, T=T, max_iter=1 if q else 2), wall_s=40 if q else 150,
                       timeout_ms=3000 if q else 8000))
    us.append(Unit('C20/D/anderson-cd-with-group-datafit', u_f24, {}, wall_s=60))
    for pen in ['L1', 'L1+', 'L1_plus_L2', 'L1_plus_L2+', 'WeightedL1', 'WeightedL1+', 'MCPenalty', 'MCPenalty+', 'WeightedMCPenalty',
                'SCAD', 'IndicatorBox', 'PositiveConstraint', 'L0_5', 'L2_3', 'LogSumPenalty']:
        for ws in ([2], [1, 2], [0, 2]):
            us.append(Unit('C20/K/subdiff-distance-on-working-set[%s,ws=%s]' % (pen, ws), u_ws_kernel, dict(penalty=pen, ws=ws),
                           wall_s=60, timeout_ms=8000))
    # Cox: the tie-group index arrays (H_indptr / H_indices, CSC-like) are walked by _A_dot_vec / _AT_dot_vec
    from checks import c06
    for tm, sv in (([0, 1, 0], [1, 0, 1]), ([1, 1, 0], [1, 1, 0]), ([0, 0, 1], [1, 0, 1]), ([2, 0, 2, 0], [1, 1, 1, 0])):
        for efron in (False, True):
            us.append(Unit('C20/K/Cox-kernels[tm=%s,s=%s,efron=%s]' % (tm, sv, efron), c06.u_cox,
                           dict(tm=tm, s=sv, efron=efron, sparse_pattern=[[1, 0], [0, 1], [1, 1], [1, 1]][:len(tm)]), wall_s=60))
    # (u_global_lipschitz_sparse is not registered: the power method's iterates are nested radicals of a random start; see
    #  DESIGN 10.6, seeded change C20-m3)
    for name, sp in itertools.product(['Quadratic', 'WeightedQuadratic', 'QuadraticMultiTask'], (False, True)):
        us.append(Unit('C20/K/reinitialise-on-a-larger-problem[%s,sparse=%s]' % (name, sp), u_reinitialise,
                       dict(name=name, sparse=sp), wall_s=60, timeout_ms=8000))
    for pen, (lay, wss) in itertools.product(['WeightedGroupL2', 'WeightedGroupL2+'],      # (WeightedL1GroupL2 has no subdiff_distance)
                                             [([[0, 2], [1]], ([1],)), ([[0], [1, 2]], ([1],)), ([[0], [1], [2]], ([2], [0, 2]))]):
        for ws in wss:
            us.append(Unit('C20/K/subdiff-distance-on-working-set[%s,layout=%s,ws=%s]' % (pen, lay, ws), u_ws_kernel,
                           dict(penalty=pen, ws=ws, layout=lay), wall_s=60, timeout_ms=8000))
    return us


MANIFEST = dict(
    claimed=True,
    level_text=("Bounded symbolic model checking with bounds-checked arrays: bounded runs of the real AndersonCD, ProxNewton, "
                "GramCD, GroupBCD, GroupProxNewton and MultiTaskBCD drivers on accepted compositions with 3 features, "
                "non-contiguous groups [[0,2],[1]], 2 tasks, with/without intercept, dense and CSC, weighted penalties whose "
                "weights have exactly p entries: for all data no feasible control path raises IndexError or a broadcasting "
                "error (numpy's own checks = the semantics of NUMBA_BOUNDSCHECK=1) and outputs have the documented length. "
                "Counterexamples are replayed on the jitted build with NUMBA_BOUNDSCHECK=1."),
    level_note=("Exact reals; shapes p<=3, n<=3, T=2; budgets (1,1). Negative-index wrap-around is legal in both numpy and "
                "numba, so slips through it are only caught as wrong results by C03/C05/C17. Known finding F24 (AndersonCD "
                "accepts QuadraticGroup and reads a per-group Lipschitz array per feature) is listed in known_findings.json."),
)
