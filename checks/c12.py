"""C12 -- classifier outputs are consistent with the fitted linear model(s) (family E)."""
import contextlib
import itertools
import numpy as np

from checks.common import Unit
from checks import estim as ES

EXPLANATION = ("With coef_/intercept_ symbolic, the real predict / predict_proba / decision_function code (sklearn's linear "
               "classifier mixin driven through identity stubs of its validators) is executed on symbolic X: predictions are "
               "classes_[decision > 0] (argmax for several classes), probabilities sum to one and are monotone in the decision "
               "value, and relabelling changes only the labels. The multiclass one-vs-rest branch of _glm_fit is executed with "
               "the real sklearn OneVsRestClassifier and symbolic per-class binary solver results: row k of coef_ AND "
               "intercept_[k] are the binary model of class k, whose targets are +-1 for 'is class k'.")
ASSUMPTIONS = ["sklearn validate_data / check_is_fitted / check_array are identity stubs; scipy.special.expit replaced by its "
               "formula over uninterpreted exp; BaseSolver.solve intercepted", "<= 3 classes, p = 2, 2 samples at prediction time"]
BOUNDS = dict(quick="label sets: strings, arbitrary ints, {-1,1}, {0,1}; 3-class strings/ints", thorough="same")


@contextlib.contextmanager
def predict_stubs(h):
    import sklearn.linear_model._base as B
    import skglm.estimators as E
    saved = []
    if h.mode == 'sym':
        for mod, name, val in ((B, 'validate_data', lambda est, X, **kw: X), (B, 'check_is_fitted', lambda *a, **k: None),
                               (E, 'check_is_fitted', lambda *a, **k: None)):
            if hasattr(mod, name):
                saved.append((mod, name, getattr(mod, name)))
                setattr(mod, name, val)

        def expit(x, out=None):
            from vf import shim
            r = shim.sarr([1 / (1 + h.np.exp(-v)) for v in np.asarray(x, dtype=object).flat]).reshape(np.shape(x))
            if out is not None:
                out[...] = r
                return out
            return r
        saved.append((E, 'expit', E.expit))
        E.expit = expit
    try:
        yield
    finally:
        for mod, name, val in saved:
            setattr(mod, name, val)


def u_predict_binary(h, kind, labels, fit_intercept):
    import skglm
    p, m = 2, 2
    classes = np.array(sorted(set(labels)))
    if kind == 'SparseLogisticRegression':
        est = skglm.SparseLogisticRegression(fit_intercept=fit_intercept)
    elif kind == 'LinearSVC':
        est = skglm.LinearSVC(fit_intercept=False)
    else:
        from skglm.datafits import Logistic
        from skglm.penalties import L1
        est = skglm.GeneralizedLinearEstimator(Logistic(), L1(1.))
    c = h.vec('coef', p)
    b = h.real('icpt') if fit_intercept else 0.0
    est.classes_ = classes
    est.coef_ = h.arr([[c[0], c[1]]]) if h.mode == 'sym' else np.array([[c[0], c[1]]])
    est.intercept_ = b
    est.n_features_in_ = p
    X = h.mat('X', m, p)
    with predict_stubs(h):
        pred = est.predict(X)
        dec = [sum(X[i, j] * c[j] for j in range(p)) + b for i in range(m)]
        for i in range(m):
            h.observe('dec%d' % i, dec[i])
            pos = bool(dec[i] > 0)
            h.ensure('predict[%d]' % i, pred[i] == (classes[1] if pos else classes[0]))
        if kind == 'SparseLogisticRegression':
            proba = est.predict_proba(X)
            for i in range(m):
                h.ensure('proba-sums-to-one[%d]' % i, h.eq(proba[i, 0] + proba[i, 1], 1))
                h.ensure('proba-in-[0,1][%d]' % i, h.and_(h.ge(proba[i, 1], 0), h.le(proba[i, 1], 1)))
                h.ensure('proba-consistent-with-predict[%d]' % i,
                         h.implies(h.gt(dec[i], 0), h.gt(proba[i, 1], proba[i, 0])))
            h.ensure('proba-monotone-in-decision',
                     h.implies(h.lt(dec[0], dec[1]), h.lt(proba[0, 1], proba[1, 1])))


def u_ovr_fit(h, labels, fit_intercept):
    """3-class fit through the real OneVsRestClassifier: per-class rows AND intercepts, +-1 targets per class"""
    import skglm
    n, p = len(labels), 2
    X = h.mat('X', n, p)
    y = np.array(labels)
    classes = sorted(set(labels))
    A = h.real('alpha')
    h.assume(A > 0)
    est = skglm.SparseLogisticRegression(alpha=A, fit_intercept=fit_intercept)
    rets = []

    def result(k, call):
        r = ES.sym_result(h, p + (1 if fit_intercept else 0), tag='c%d_' % k)
        rets.append(r)
        return r
    with ES.sklearn_stubs(h):
        with ES.intercept_solve(h, result) as cap:
            est.fit(X, y)
    K = len(classes)
    h.ensure('one-binary-solve-per-class', len(cap.calls) == K)
    h.ensure('classes_', list(est.classes_) == classes)
    for k in range(min(K, len(cap.calls))):
        yk = cap.calls[k]['y']
        tgt = h.true()
        for i in range(n):
            tgt = h.and_(tgt, h.eq(yk[i], 1.0 if labels[i] == classes[k] else -1.0))
        h.ensure('binary-targets[%d]' % k, tgt)
        row = h.true()
        for j in range(p):
            row = h.and_(row, h.eq(est.coef_[k, j], rets[k][0][j]))
        h.ensure('coef-row-is-binary-model[%d]' % k, row)
        if fit_intercept:
            ik = est.intercept_[k] if np.ndim(est.intercept_) else est.intercept_
            h.ensure('intercept-is-binary-model[%d]' % k, h.eq(ik, rets[k][0][p]))
    h.observe('x', rets[0][0][0])


def u_ovr_refit(h, labels):
    """warm_start multiclass estimator fitted with an intercept, then refitted without: the fitted model must be the
    per-class binary models of the LAST fit (no stale intercepts)"""
    import skglm
    n, p = len(labels), 2
    X = h.mat('X', n, p)
    y = np.array(labels)
    A = h.real('alpha')
    h.assume(A > 0)
    est = skglm.SparseLogisticRegression(alpha=A, fit_intercept=True, warm_start=True)
    rets = []

    def result(k, call):
        r = ES.sym_result(h, p + (1 if call['solver'].fit_intercept else 0), tag='c%d_' % k)
        rets.append(r)
        return r
    with ES.sklearn_stubs(h):
        with ES.intercept_solve(h, result) as cap:
            est.fit(X, y)
            est.fit_intercept = False
            est.fit(X, y)
    K = len(set(labels))
    h.ensure('solves', len(cap.calls) == 2 * K)
    last = rets[K:]
    for k in range(K):
        row = h.true()
        for j in range(p):
            row = h.and_(row, h.eq(est.coef_[k, j], last[k][0][j]))
        h.ensure('coef-row-is-last-binary-model[%d]' % k, row)
        ik = est.intercept_[k] if np.ndim(est.intercept_) else est.intercept_
        h.ensure('no-stale-intercept[%d]' % k, h.eq(ik, 0))
    h.observe('x', last[0][0][0])


def u_svc_warm_refit(h, labels1, labels2):
    """LinearSVC(warm_start=True) fitted, then refitted on data whose two classes are LABELLED differently (so that their order
    in classes_ changes) and on other rows: the dual start handed to the solver is the previous dual solution and the
    model-fit buffer handed with it is (y * X)^T @ dual for the CURRENT data and labels"""
    import skglm
    n, p = 3, 2
    X1, X2 = h.mat('XA', n, p), h.mat('XB', n, p)
    C = h.real('C')
    h.assume(C > 0)
    est = skglm.LinearSVC(C=C, fit_intercept=False, warm_start=True)
    rets = []

    def result(k, call):
        r = ES.sym_result(h, n, tag='d%d_' % k)
        rets.append(r)
        return r
    with ES.sklearn_stubs(h):
        with ES.intercept_solve(h, result) as cap:
            est.fit(X1, np.array(labels1))
            est.fit(X2, np.array(labels2))
    h.ensure('two-solves', len(cap.calls) == 2)
    if len(cap.calls) < 2:
        return
    c2 = cap.calls[1]
    w2, Xw2 = c2['w_init'], c2['Xw_init']
    prev = rets[0][0]
    h.observe('x', prev[0])
    ok = h.true()
    for i in range(n):
        ok = h.and_(ok, h.eq(w2[i], prev[i]))
    h.ensure('dual-start-is-the-previous-dual-solution', ok)
    cls = sorted(set(labels2))
    ys = [1.0 if l == cls[1] else -1.0 for l in labels2]
    cons = h.true() if len(Xw2) == p else h.false()
    for j in range(min(p, len(Xw2))):
        cons = h.and_(cons, h.eq(Xw2[j], sum(ys[i] * X2[i, j] * w2[i] for i in range(n))))
    h.ensure('start-model-fit-is-(yX)^T-dual-for-the-current-data', cons)


def u_predict_multiclass(h, labels):
    import skglm
    p, m = 2, 1
    classes = np.array(sorted(set(labels)))
    K = len(classes)
    est = skglm.SparseLogisticRegression()
    C = h.mat('coef', K, p)
    bb = h.vec('icpt', K)
    est.classes_ = classes
    est.coef_ = C
    est.intercept_ = bb
    est.n_features_in_ = p
    X = h.mat('X', m, p)
    with predict_stubs(h):
        pred = est.predict(X)
        dec = [sum(X[0, j] * C[k, j] for j in range(p)) + bb[k] for k in range(K)]
        for k in range(K):
            h.observe('dec%d' % k, dec[k])
        best = 0
        for k in range(1, K):
            if bool(dec[k] > dec[best]):
                best = k
        h.ensure('predict-is-argmax', pred[0] == classes[best])
        proba = est.predict_proba(X)
        tot = proba[0, 0]
        for k in range(1, K):
            tot = tot + proba[0, k]
        h.ensure('proba-sums-to-one', h.eq(tot, 1))
        for k in range(K):
            h.ensure('proba-order[%d]' % k, h.implies(h.gt(dec[best], dec[k]), h.gt(proba[0, best], proba[0, k])))


def units(tier):
    us = []
    for kind in ('SparseLogisticRegression', 'LinearSVC', 'GeneralizedLinearEstimator'):
        for labels in (['a', 'b'], [7, 3], [-1, 1], [0, 1]):
            for fi in ((True, False) if kind == 'SparseLogisticRegression' else (False,)):
                us.append(Unit('C12/E/predict[%s,labels=%s,fit_intercept=%s]' % (kind, labels, fi), u_predict_binary,
                               dict(kind=kind, labels=labels, fit_intercept=fi), wall_s=90))
    for labels in (['a', 'b', 'c', 'a'], [5, 1, 9, 9], ['x', 'z', 'y']):
        for fi in (True, False):
            us.append(Unit('C12/E/ovr-fit[labels=%s,fit_intercept=%s]' % (labels, fi), u_ovr_fit,
                           dict(labels=labels, fit_intercept=fi), wall_s=120))
    for labels in (['a', 'b', 'c', 'a'], [5, 1, 9]):
        us.append(Unit('C12/E/ovr-warm-refit[labels=%s]' % (labels,), u_ovr_refit, dict(labels=labels), wall_s=120))
    for l1, l2 in (([3, 7, 3], [30, -7, 30]), (['a', 'b', 'a'], ['a', 'b', 'b'])):
        us.append(Unit('C12/E/LinearSVC-warm-refit[%s->%s]' % (l1, l2), u_svc_warm_refit, dict(labels1=l1, labels2=l2), wall_s=90))
    # the loss behind the binary classifiers treats the two classes symmetrically: C06's obligations for the Logistic datafit
    # (every accessor == derivative of value, sparse == dense) for label vectors of both signs
    from checks import c06
    for yc in ((1, -1, 1), (-1, -1, 1)):
        us.append(Unit('C12/K/Logistic-datafit[y=%s]' % (yc,), c06.u_datafit,
                       dict(name='Logistic', n=3, p=2, pattern=c06.PATTERNS_32[0], ycombo=yc), wall_s=120))
    for labels in (['a', 'b', 'c'], [5, 1, 9]):
        us.append(Unit('C12/E/predict-multiclass[labels=%s]' % (labels,), u_predict_multiclass, dict(labels=labels), wall_s=120))
    return us


MANIFEST = dict(
    claimed=True,
    level_text=("Bounded symbolic model checking of classifier consistency: with symbolic coef_/intercept_ and symbolic X the "
                "real predict / predict_proba code returns classes_[decision > 0] (argmax for 3 classes), probabilities that "
                "sum to one, lie in [0,1], order like the decision values and are monotone in them, for string / arbitrary-int "
                "/ {-1,1} / {0,1} label sets; the real multiclass branch of _glm_fit, driven through sklearn's own "
                "OneVsRestClassifier with symbolic per-class solver results, yields coef_[k] AND intercept_[k] equal to the "
                "binary model of class k, whose targets are +1 for class k and -1 otherwise."),
    level_note=("sklearn validators and scipy.special.expit stubbed (identity / defining formula over uninterpreted exp); "
                "BaseSolver.solve intercepted; <=3 classes, p=2. LinearSVC multiclass dual_coef_ and decision values of the "
                "fitted OvR model vs separately fitted binary models on real data are not covered."),
)
