"""C01 -- reported convergence is a valid first-order certificate (families D, S)."""
import itertools
import zlib


def dh(t):
    """deterministic hash for config sub-sampling (python's hash() is salted per process)"""
    return zlib.crc32(repr(t).encode())

from checks.common import Unit
from checks import driver as DR

EXPLANATION = ("Bounded runs of the real _solve drivers (AndersonCD, GramCD, ProxNewton, GroupBCD, GroupProxNewton, FISTA "
               "excluded here) with symbolic y, alpha, tol, weights and warm start on catalogue design matrices; at every "
               "return of every feasible control path z3 decides: stop_crit <= tol => the violation recomputed by the "
               "harness from X, y and the returned w alone (gradient = dual-number derivative of the real value(); "
               "subdifferential from one-sided derivatives of the real penalty value()) is <= tol.")
ASSUMPTIONS = [
    "exact reals; catalogue design matrices; budgets max_iter<=2, max_epochs<=2 (ProxNewton: 1 PN step, MAX_CD_ITER and "
    "MAX_BACKTRACK_ITER patched to 2); alpha>0, tol>0, weights>=0; warm starts with consistent Xw",
    "non-convex penalties inside their well-posed range w.r.t. the coordinate Lipschitz constants",
    "oracle for ws_strategy='fixpoint' is the fixed-point residual with harness-recomputed Lipschitz constants",
]
BOUNDS = dict(quick="X in {corr32, gen32}; (max_iter,max_epochs) in {(1,1),(2,1)}; p0 in {1,p}",
              thorough="X in 5 catalogue matrices; budgets up to (2,2); dense and CSC; both strategies")


def u_cert(h, cfg):
    R = DR.run_driver(h, cfg)
    w = [R.w[k] for k in range(len(R.w))]
    sc = R.stop_crit
    if not DR._isinf(sc):
        h.observe('stop_crit', sc)
    for k in range(len(w)):
        h.observe('w%d' % k, w[k])
    stopped = h.le(sc, R.tol)
    if h.mode == 'sym':
        if not bool(stopped):
            h.ensure('certificate', True)      # budget exhausted: nothing is claimed by the solver
            return
    elif not stopped.strict:
        h.ensure('certificate', True)
        return
    terms = DR.violation_terms(h, R, w)
    ok = h.true()
    dom = h.true()
    for t in terms:
        if DR._isinf(t):
            ok = h.false()
            dom = h.false()
        else:
            ok = h.and_(ok, h.le(t, R.tol))
            dom = h.and_(dom, h.le(t, sc))
    h.ensure('certificate', ok)
    # stronger, tolerance-free form: the returned value dominates the recomputed violation
    h.ensure('violation<=stop_crit', dom)


def configs(tier):
    """Two kinds of bounded runs (see DESIGN 3-D / 7-C01):
    * t0: symbolic warm start (any consistent state), max_iter=1, no inner epoch -> the optimality check of the
      driver at an arbitrary state; together with the consistency obligations of C05 (every primitive step keeps
      Xw == X w + b) this covers the check at every iteration of every run;
    * e2e: cold start, budget (2,1): the check after real epochs, end to end."""
    out = []
    q = tier == 'quick'
    lin = [('Quadratic', 'L1'), ('Quadratic', 'L1+'), ('Quadratic', 'WeightedL1'), ('Quadratic', 'WeightedL1+'),
           ('Quadratic', 'PositiveConstraint'), ('Quadratic', 'IndicatorBox'), ('WeightedQuadratic', 'L1'),
           ('QuadraticSVC', 'IndicatorBox')]
    nonlin = [('Quadratic', 'L1_plus_L2'), ('Quadratic', 'L1_plus_L2+'), ('Quadratic', 'MCPenalty'),
              ('Quadratic', 'MCPenalty+'), ('Quadratic', 'WeightedMCPenalty'), ('Quadratic', 'SCAD'),
              ('WeightedQuadratic', 'L1_plus_L2')]
    Xs = ['corr32', 'gen32'] if q else ['corr32', 'gen32', 'wide23', 'dup32', 'const32', 'zero_last32']
    for (df, pen), X in itertools.product(lin + nonlin, Xs):
        for fi, strat, sparse in itertools.product((False, True), ('subdiff', 'fixpoint'), (False, True)):
            if df == 'QuadraticSVC' and fi:
                continue
            if q and dh((df, pen, X, fi, strat, sparse)) % (2 if (df, pen) in lin else 4):
                continue
            out.append(dict(solver='AndersonCD', kind='t0', datafit=df, penalty=pen, X=X, max_iter=1, max_epochs=0,
                            fit_intercept=fi, ws_strategy=strat, warm=True, sparse=sparse, p0=1))
    # Huber on a 2x2 design (3 regions per sample), Logistic parametrised by its model fit
    for fi, strat, sparse in itertools.product((False, True), ('subdiff', 'fixpoint'), (False, True)):
        if q and dh(('hub', fi, strat, sparse)) % 2:
            continue
        out.append(dict(solver='AndersonCD', kind='t0', datafit='Huber', penalty='L1', X='orth22', max_iter=1, max_epochs=0,
                        fit_intercept=fi, ws_strategy=strat, warm=True, sparse=sparse, p0=1))
    for pen, (X, fi) in itertools.product(('L1', 'WeightedL1'), (('orth22', False), ('col21', True))):
        for strat, sparse in itertools.product(('subdiff', 'fixpoint'), (False, True)):
            if q and dh(('log', pen, X, strat, sparse)) % 2:
                continue
            out.append(dict(solver='AndersonCD', kind='t0', datafit='Logistic', penalty=pen, X=X, max_iter=1, max_epochs=0,
                            fit_intercept=fi, ws_strategy=strat, warm=True, sparse=sparse, p0=1, param_fit=True))
    e2e = [('Quadratic', 'L1'), ('Quadratic', 'WeightedL1'), ('WeightedQuadratic', 'L1')]
    if not q:
        # (QuadraticSVC cold-start runs on CSC with the fixpoint strategy gave symbolic counterexamples that no concrete run
        #  reproduces -- an unresolved discrepancy of the harness, so the composition is left to its t0 units)
        e2e += [('Quadratic', 'L1_plus_L2+'), ('Quadratic', 'MCPenalty')]
    for (df, pen), X in itertools.product(e2e, Xs[:2]):
        for fi, strat, p0, sparse in itertools.product((False, True), ('subdiff', 'fixpoint'), (1, 2), (False, True)):
            if df == 'QuadraticSVC' and fi:
                continue
            if q and dh((df, pen, X, fi, strat, p0, sparse)) % 12:
                continue
            out.append(dict(solver='AndersonCD', kind='e2e', datafit=df, penalty=pen, X=X, max_iter=2, max_epochs=1,
                            fit_intercept=fi, ws_strategy=strat, warm=False, sparse=sparse, p0=p0))
    # GroupBCD / GroupProxNewton: singleton-group layouts keep the group norms linear; a 2-feature group in thorough
    for lay, fi, sparse, pos in itertools.product(['single', 'rev'] if q else ['single', 'rev', 'pair'], (False, True), (False, True), (False, True)):
        if q and (sparse or dh(('grp', lay, fi, pos)) % 2):
            continue            # (CSC group constants come from the power method: square roots; thorough only)
        if lay == 'pair' and (sparse or fi):
            continue            # (2-feature groups: nested square roots, minutes per unit -- two dense units only)
        out.append(dict(solver='GroupBCD', kind='t0', datafit='QuadraticGroup', penalty='WeightedGroupL2' + ('+' if pos else ''),
                        X='corr32', layout=lay, max_iter=1, max_epochs=0, p0=1, fit_intercept=fi, ws_strategy='subdiff', warm=True,
                        sparse=sparse, wg_concrete=[1.0, 0.5]))
    for lay, fi in itertools.product(['single', 'rev'], (False, True)):
        out.append(dict(solver='GroupBCD', kind='e2e', datafit='QuadraticGroup', penalty='WeightedGroupL2', X='corr32', layout=lay,
                        max_iter=2, max_epochs=1, p0=1, fit_intercept=fi, ws_strategy='subdiff', warm=False, wg_concrete=[1.0, 0.5]))
    # GroupProxNewton (LogisticGroup, parametrised by its model fit): the outer optimality check at an arbitrary state
    for lay, (X, fi) in itertools.product(['single', 'rev'], (('orth22', False), ('gen32', True))):
        if q and fi:
            continue        # (3 exp atoms + intercept: minutes, with unknowns -- thorough tier)
        out.append(dict(solver='GroupProxNewton', kind='t0', datafit='LogisticGroup', penalty='WeightedGroupL2', X=X, layout=lay,
                        max_iter=1, max_pn_iter=0, p0=1, fit_intercept=fi, warm=True, param_fit=True, wg_concrete=[1.0, 0.5]))
    # GramCD (one epoch is part of every iteration)
    for pen, X in itertools.product(['L1', 'L1+', 'WeightedL1', 'MCPenalty', 'IndicatorBox'] + ([] if q else ['L1_plus_L2']), Xs):
        for greedy in (False, True):
            for warm, mi in ((True, 1), (False, 2)):
                if q and dh((pen, X, greedy, warm)) % 3:
                    continue
                out.append(dict(solver='GramCD', kind='t0' if warm else 'e2e', datafit='Quadratic', penalty=pen, X=X,
                                max_iter=mi, greedy_cd=greedy, warm=warm, fit_intercept=False))
    # GramCD with acceleration: tolerance stop right after an accepted extrapolation (contract stub fires in iteration 0)
    for pen in (('L1',) if q else ('L1', 'WeightedL1', 'MCPenalty')):
        out.append(dict(solver='GramCD', kind='acc', datafit='Quadratic', penalty=pen, X='tri22' if q else 'corr32', max_iter=2,
                        max_iter_unpatched=14, acc_stub=1, use_acc=True, greedy_cd=False, warm=not q, fit_intercept=False))
    # ProxNewton
    pn = [('Quadratic', 'L1', 'corr32', None), ('Quadratic', 'L1_plus_L2', 'gen32', None),
          ('Logistic', 'L1', None, True), ('Logistic', 'WeightedL1', None, True),
          ('Poisson', 'L1', None, True), ('Gamma', 'L1', None, True)]
    for df, pen, X, pf in pn:
        for fi, strat, sparse in itertools.product((False, True), ('subdiff', 'fixpoint'), (False, True)):
            Xn = X or ('col21' if fi else 'orth22')
            if q and dh((df, pen, fi, strat, sparse)) % 2:
                continue
            out.append(dict(solver='ProxNewton', kind='t0', datafit=df, penalty=pen, X=Xn, max_iter=1, max_pn_iter=0,
                            fit_intercept=fi, ws_strategy=strat, warm=True, p0=1, sparse=sparse, param_fit=bool(pf)))
    for fi in (False, True):
        out.append(dict(solver='ProxNewton', kind='e2e', datafit='Quadratic', penalty='L1', X='corr32', max_iter=2,
                        max_pn_iter=1, fit_intercept=fi, ws_strategy='subdiff', warm=False, p0=2))
    return out


def slow(c):
    """configurations whose obligations need more than the quick tier's budget (kept in thorough)"""
    if c['solver'] == 'ProxNewton' and c.get('ws_strategy') == 'fixpoint' and c['datafit'] != 'Quadratic':
        return True
    if c['solver'] == 'ProxNewton' and c['penalty'].startswith('L1_plus_L2') and c.get('ws_strategy') == 'fixpoint':
        return True
    if c['solver'] == 'ProxNewton' and c['kind'] == 'e2e' and c['fit_intercept']:
        return True
    if c['penalty'] in ('SCAD', 'WeightedMCPenalty') and c.get('ws_strategy') == 'fixpoint':
        return True
    if c['kind'] == 'e2e' and c['datafit'] == 'WeightedQuadratic':
        return True
    return False


def _cid(c):
    return c['kind'] + ':' + ','.join('%s=%s' % (k, c[k]) for k in sorted(c) if k not in ('solver', 'kind'))


def units(tier):
    us = []
    for c in configs(tier):
        if tier == 'quick' and slow(c):
            continue
        us.append(Unit('C01/D/%s[%s]' % (c['solver'], _cid(c)), u_cert, dict(cfg=c), wall_s=60 if tier == 'quick' else 240, max_paths=4000, timeout_ms=6000 if tier == 'quick' else 20000,
                       patched=c['solver'] in ('ProxNewton', 'GroupProxNewton') or bool(c.get('acc_stub'))))
    # inductive complement (S): the prox-Newton line searches keep the buffers the certificate is computed from consistent
    from checks import steps as ST
    # MultiTaskBCD with one task (row norms are absolute values): certificate at tolerance stops
    for fi, sp, warm in itertools.product((False, True), (False, True), (False, True)):
        us.append(Unit('C01/D/MultiTaskBCD[T=1,intercept=%s,sparse=%s,warm=%s]' % (fi, sp, warm), ST.u_multitask_run,
                       dict(X='corr32', fit_intercept=fi, sparse=sp, warm=warm, budget=(2, 1), want=('certificate',)),
                       wall_s=90, timeout_ms=8000))
    # two tasks (catalogue targets whose per-task means differ in sign; alpha, tol symbolic): the intercept term of the
    # stopping value is the LARGEST absolute per-task gradient
    for sp, (tag, Yc) in itertools.product((False, True), (('means(0,-3)', [[0.0, -2.0], [1.0, -5.0], [-1.0, -2.0]]),
                                                          ('means(0,+3)', [[0.0, 2.0], [1.0, 5.0], [-1.0, 2.0]]))):
        us.append(Unit('C01/D/MultiTaskBCD[T=2,intercept=True,sparse=%s,Y=%s]' % (sp, tag), ST.u_multitask_run,
                       dict(X='corr32', fit_intercept=True, sparse=sp, warm=False, budget=(1, 0), T=2, want=('certificate',),
                            Y_concrete=Yc), wall_s=90, timeout_ms=8000))
    # inductive complement for GroupBCD on CSC input: the sparse group epoch keeps the model-fit buffer (from which the next
    # scores and the stopping value are computed) in sync, exactly as the dense epoch does -- same block constants
    for lay, X in (('single', 'corr32'), ('rev', 'gen32')) + ((('pair', 'gen32'),) if tier != 'quick' else ()):
        for g in range(len(DR.GROUP_LAYOUTS[lay])):
            us.append(Unit('C01/S/group_step_csc[QuadraticGroup,layout=%s,X=%s,g=%d]' % (lay, X, g), ST.u_group_step,
                           dict(datafit='QuadraticGroup', layout=lay, X=X, g=g, sparse_epoch=True), wall_s=90, timeout_ms=8000))
    for X, fi in (('corr32', False), ('corr32', True)):
        us.append(Unit('C01/S/pn_linesearch[X=%s,intercept=%s]' % (X, fi), ST.u_pn_linesearch, dict(X=X, fit_intercept=fi),
                       wall_s=120, timeout_ms=8000, patched=True))
        us.append(Unit('C01/S/group_pn_linesearch[intercept=%s]' % fi, ST.u_pn_linesearch,
                       dict(X='corr32', fit_intercept=fi, group=True), wall_s=120, timeout_ms=8000, patched=True))
    # state kept across outer iterations (accelerator buffers, working-set bookkeeping) must not corrupt the buffers the
    # certificate is computed from: two outer iterations, changing one-feature working set, a proposal in each
    c2 = dict(solver='AndersonCD', datafit='Quadratic', penalty='L1', X='corr33', max_iter=2, max_epochs=1, max_epochs_unpatched=7, acc_stub=1, p0=1, fit_intercept=False, ws_strategy='subdiff', warm=True, w0_concrete=[2.0, 0.0, 0.0], ylabels=[1.0, -2.0, 3.0], acc_catalogue=[1.0, -0.5, 0.0], two_iter=True)
    us.append(Unit('C01/D/two-iterations[%s]' % ','.join('%s=%s' % (k, c2[k]) for k in sorted(c2)), ST.u_run,
                   dict(cfg=c2, want=('buffer', 'history')), wall_s=200, max_paths=6000, timeout_ms=8000, patched=True))
    return us


MANIFEST = dict(
    claimed=True,
    level_text=("Bounded symbolic model checking of the real solver drivers (AndersonCD, GramCD, ProxNewton, GroupBCD; dense and CSC, "
                "with/without intercept, both working-set strategies): at every return of every feasible control path, for all "
                "y, alpha, tol, weights and warm starts, z3 decides that stop_crit <= tol implies the first-order violation "
                "recomputed by the harness from X, y and the returned w alone is <= tol (and, tolerance-free, that the returned "
                "stop_crit dominates that violation). The oracle gradient is the dual-number derivative of the datafit's own "
                "value(), the subdifferential comes from one-sided derivatives of the penalty's own value(). Two run shapes: "
                "'t0' = the driver's optimality check at an arbitrary consistent state (covers the check at every iteration of "
                "any run, given the consistency invariant discharged in C05), 'e2e' = cold-start runs of 2 outer iterations."),
    level_note=("Exact reals; design matrices from a catalogue (n<=3, p<=2; correlated, generic, degenerate); budgets "
                "(max_iter<=2, max_epochs<=1; ProxNewton 1 PN step with MAX_CD_ITER/MAX_BACKTRACK_ITER patched to 2); "
                "hyper-parameters other than alpha (l1_ratio, gamma) from a catalogue at driver level (symbolic at kernel "
                "level, C07/C08); Logistic parametrised by its model fit on square invertible designs; exp/log uninterpreted. "
                "GroupBCD runs use WeightedGroupL2 (+-positive) with singleton-group layouts and catalogue group weights in the "
                "quick tier (a 2-feature group and CSC in thorough), 'subdiff' strategy; MultiTaskBCD runs use one task (row "
                "norms = absolute values); GroupProxNewton: the outer check at an arbitrary state (LogisticGroup, singleton groups). "
                "LBFGS certificates are not covered here; longer runs are covered only through the inductive reading."),
)
