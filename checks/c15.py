"""C15 -- solutions transform correctly under symmetries of the problem (family K)."""
import itertools
import numpy as np

from checks.common import Unit, P, D
from vf.sym import _isinf

EXPLANATION = ("Equivariance of the problem and of its certificate: for every permutation of features (with weights and group "
               "membership), groups, tasks or samples, for k-fold stacking and for positive rescalings, the real value / "
               "gradient / Lipschitz / prox / subdiff_distance / alpha_max / generalized_support code of the transformed "
               "problem equals the transformed result of the original one, for all data (equalities decided by z3). Hence the "
               "set of certified points (C01) of the transformed problem is the image of the original set.")
ASSUMPTIONS = ["exact reals; p<=3 features, n<=3 samples, T<=2 tasks, stacking factor k=2; scale c>0",
               "iterate-level equality of bounded runs is NOT asserted (cyclic order legitimately breaks it)"]
BOUNDS = dict(quick="all permutations of 2 features / 2 groups / 2 tasks / 3 samples", thorough="3 features, 3 groups")


def _eqv(h, a, b):
    if _isinf(a) or _isinf(b):
        return bool(_isinf(a) and _isinf(b))
    return h.eq(a, b)


def u_feature_perm_penalty(h, name, perm, positive=False):
    Pm = P()
    p = len(perm)
    al = h.real('alpha')
    s = h.real('step')
    h.assume(al > 0, s > 0)
    wt = h.vec('wt', p)
    for k in range(p):
        h.assume(wt[k] >= 0)
    wtp = h.arr([wt[perm[k]] for k in range(p)])       # permuted problem: feature k is old feature perm[k]
    kw = dict(alpha=al, positive=positive)
    if name == 'WeightedMCPenalty':
        g = h.real('gamma')
        for k in range(p):
            h.assume(g > s * wt[k])
        kw['gamma'] = g
    cls = getattr(Pm, name)
    a = h.penalty(cls, weights=wt, **kw)
    b = h.penalty(cls, weights=wtp, **kw)
    w = h.vec('w', p)
    wp = h.arr([w[perm[k]] for k in range(p)])
    va, vb = a.value(w), b.value(wp)
    if not _isinf(va):
        h.observe('value', va)
    h.ensure('value', _eqv(h, va, vb))
    x = h.real('x')
    for k in range(p):
        h.ensure('prox[%d]' % k, h.eq(b.prox_1d(x, s, k), a.prox_1d(x, s, perm[k])))
    g_ = h.vec('g', p)
    gp = h.arr([g_[perm[k]] for k in range(p)])
    sa = a.subdiff_distance(w, g_, np.arange(p))
    sb = b.subdiff_distance(wp, gp, np.arange(p))
    for k in range(p):
        h.ensure('score[%d]' % k, _eqv(h, sb[k], sa[perm[k]]))
    ma, mb = a.is_penalized(p), b.is_penalized(p)
    h.ensure('is_penalized', all(bool(mb[k]) == bool(ma[perm[k]]) for k in range(p)))
    h.assume(h.any_([h.gt(wt[k], 0) for k in range(p)]))
    h.ensure('alpha_max', h.eq(a.alpha_max(g_), b.alpha_max(gp)))


def u_feature_perm_datafit(h, name, perm, n=3):
    from checks.c06 import _make
    p = len(perm)
    df, y, meta = _make(h, name, n, p, (1, -1, 1)[:n])
    import copy
    X = h.mat('X', n, p)
    Xp = h.arr([[X[i, perm[k]] for k in range(p)] for i in range(n)])
    w = h.vec('w', p)
    wp = h.arr([w[perm[k]] for k in range(p)])
    Xw = h.vec('Xw', n)
    df2 = copy.copy(df) if h.mode == 'sym' else df
    if hasattr(df, 'initialize'):
        df.initialize(X, y)
    La = df.get_lipschitz(X, y) if hasattr(df, 'get_lipschitz') else None
    ga = [df.gradient_scalar(X, y, w, Xw, j) for j in range(p)]
    va = df.value(y, w, Xw)
    if hasattr(df2, 'initialize'):
        df2.initialize(Xp, y)
    Lb = df2.get_lipschitz(Xp, y) if La is not None else None
    h.observe('value', va)
    h.ensure('value', h.eq(va, df2.value(y, wp, Xw)))
    for k in range(p):
        h.ensure('gradient[%d]' % k, h.eq(df2.gradient_scalar(Xp, y, wp, Xw, k), ga[perm[k]]))
        if La is not None:
            h.ensure('lipschitz[%d]' % k, h.eq(Lb[k], La[perm[k]]))


def u_sample_perm(h, name, perm, k_stack=1):
    """row permutation (k_stack=1) or k-fold stacking of the dataset"""
    from checks.c06 import _make
    n0 = len(perm)
    p = 2
    df, y, meta = _make(h, name, n0, p, (1, -1, 1)[:n0])
    import copy
    X = h.mat('X', n0, p)
    w = h.vec('w', p)
    Xw = h.vec('Xw', n0)
    rows = [perm[i] for i in range(n0)] * k_stack
    X2 = h.arr([[X[r, j] for j in range(p)] for r in rows])
    y2 = h.arr([y[r] for r in rows]) if h.mode == 'sym' else np.array([y[r] for r in rows], dtype=float)
    Xw2 = h.arr([Xw[r] for r in rows])
    if name == 'WeightedQuadratic':
        sw = meta['sw']
        df2 = h.datafit(D().WeightedQuadratic, sample_weights=h.arr([sw[r] for r in rows]))
    else:
        df2 = copy.copy(df) if h.mode == 'sym' else df
    if hasattr(df, 'initialize'):
        df.initialize(X, y)
    va = df.value(y, w, Xw)
    ga = [df.gradient_scalar(X, y, w, Xw, j) for j in range(p)]
    La = df.get_lipschitz(X, y) if hasattr(df, 'get_lipschitz') else None
    ia = df.intercept_update_step(y, Xw) if hasattr(df, 'intercept_update_step') else None
    if hasattr(df2, 'initialize'):
        df2.initialize(X2, y2)
    h.observe('value', va)
    h.ensure('value', h.eq(va, df2.value(y2, w, Xw2)))
    for j in range(p):
        h.ensure('gradient[%d]' % j, h.eq(ga[j], df2.gradient_scalar(X2, y2, w, Xw2, j)))
        if La is not None:
            h.ensure('lipschitz[%d]' % j, h.eq(La[j], df2.get_lipschitz(X2, y2)[j]))
    if ia is not None and name not in ('Poisson', 'Gamma'):
        h.ensure('intercept-step', h.eq(ia, df2.intercept_update_step(y2, Xw2)))


def u_scaling(h, which):
    Pm, Dm = P(), D()
    c = h.real('c')
    h.assume(c > 0)
    if which == 'y-alpha':
        # quadratic loss + L1: scaling y and alpha by c scales the solution by c:  F_{cy, c alpha}(c w) = c^2 F(w)
        n, p = 3, 2
        al = h.real('alpha')
        s = h.real('step')
        h.assume(al > 0, s > 0)
        y, Xw, w = h.vec('y', n), h.vec('Xw', n), h.vec('w', p)
        X = h.mat('X', n, p)
        df = h.datafit(Dm.Quadratic)
        a, b = h.penalty(Pm.L1, alpha=al), h.penalty(Pm.L1, alpha=c * al)
        df.initialize(X, y)
        F = df.value(y, w, Xw) + a.value(w)
        g = [df.gradient_scalar(X, y, w, Xw, j) for j in range(p)]
        yc, Xwc, wc = h.arr([c * y[i] for i in range(n)]), h.arr([c * Xw[i] for i in range(n)]), h.arr([c * w[j] for j in range(p)])
        df.initialize(X, yc)
        Fc = df.value(yc, wc, Xwc) + b.value(wc)
        h.observe('F', F)
        h.ensure('objective', h.eq(Fc, c * c * F))
        gc = [df.gradient_scalar(X, yc, wc, Xwc, j) for j in range(p)]
        sa = a.subdiff_distance(w, h.arr(g), np.arange(p))
        sb = b.subdiff_distance(wc, h.arr(gc), np.arange(p))
        for j in range(p):
            h.ensure('gradient[%d]' % j, h.eq(gc[j], c * g[j]))
            h.ensure('score[%d]' % j, h.eq(sb[j], c * sa[j]))
        x = h.real('x')
        h.ensure('prox', h.eq(b.prox_1d(c * x, s, 0), c * a.prox_1d(x, s, 0)))
    else:
        # feature j scaled by c together with its weight: coefficient scales by 1/c
        n, p = 3, 2
        al = h.real('alpha')
        h.assume(al > 0)
        wt = h.vec('wt', p)
        for k in range(p):
            h.assume(wt[k] >= 0)
        y, w = h.vec('y', n), h.vec('w', p)
        X = h.mat('X', n, p)
        Xw = h.arr([sum(X[i, j] * w[j] for j in range(p)) for i in range(n)]) if h.mode == 'sym' else np.asarray(X) @ np.asarray(w)
        j0 = 1
        X2 = h.arr([[X[i, j] * (c if j == j0 else 1) for j in range(p)] for i in range(n)])
        w2 = h.arr([w[j] / c if j == j0 else w[j] for j in range(p)])
        wt2 = h.arr([wt[j] * c if j == j0 else wt[j] for j in range(p)])
        df = h.datafit(Dm.Quadratic)
        a = h.penalty(Pm.WeightedL1, alpha=al, weights=wt)
        b = h.penalty(Pm.WeightedL1, alpha=al, weights=wt2)
        df.initialize(X, y)
        F = df.value(y, w, Xw) + a.value(w)
        g = [df.gradient_scalar(X, y, w, Xw, j) for j in range(p)]
        L = df.get_lipschitz(X, y)
        df.initialize(X2, y)
        F2 = df.value(y, w2, Xw) + b.value(w2)
        g2 = [df.gradient_scalar(X2, y, w2, Xw, j) for j in range(p)]
        L2 = df.get_lipschitz(X2, y)
        h.observe('F', F)
        h.ensure('objective', h.eq(F, F2))
        sa = a.subdiff_distance(w, h.arr(g), np.arange(p))
        sb = b.subdiff_distance(w2, h.arr(g2), np.arange(p))
        for j in range(p):
            f = c if j == j0 else 1
            h.ensure('gradient[%d]' % j, h.eq(g2[j], f * g[j]))
            h.ensure('score[%d]' % j, h.eq(sb[j], f * sa[j]))
            h.ensure('lipschitz[%d]' % j, h.eq(L2[j], f * f * L[j]))


def u_group_perm(h, positive=False):
    """same groups listed in the other order (with their weights): value, prox per group, scores"""
    Pm = P()
    al = h.real('alpha')
    s = h.real('step')
    h.assume(al > 0, s > 0)
    layA, layB = [[0, 2], [1]], [[1], [0, 2]]
    wgA = h.vec('wg', 2)
    for k in range(2):
        h.assume(wgA[k] >= 0)
    wgB = h.arr([wgA[1], wgA[0]])

    def mk(lay, wg):
        gp = np.cumsum([0] + [len(g) for g in lay]).astype(np.int32)
        gi = np.array([i for g in lay for i in g], dtype=np.int32)
        return h.penalty(Pm.WeightedGroupL2, alpha=al, weights=wg, grp_ptr=gp, grp_indices=gi, positive=positive)
    a, b = mk(layA, wgA), mk(layB, wgB)
    w = h.vec('w', 3)
    va, vb = a.value(w), b.value(w)
    if not _isinf(va):
        h.observe('value', va)
    h.ensure('value', _eqv(h, va, vb))
    x2, x1 = h.vec('x', 2), h.vec('z', 1)
    pa, pb = a.prox_1group(x2, s, 0), b.prox_1group(x2, s, 1)
    for k in range(2):
        h.ensure('prox-pair[%d]' % k, h.eq(pa[k], pb[k]))
    h.ensure('prox-single', h.eq(a.prox_1group(x1, s, 1)[0], b.prox_1group(x1, s, 0)[0]))
    g = h.vec('g', 3)
    sa = a.subdiff_distance(w, h.arr([g[0], g[2], g[1]]), np.array([0, 1]))
    sb = b.subdiff_distance(w, h.arr([g[1], g[0], g[2]]), np.array([0, 1]))
    h.ensure('score-pair', _eqv(h, sa[0], sb[1]))
    h.ensure('score-single', _eqv(h, sa[1], sb[0]))
    ga, gb = a.generalized_support(w), b.generalized_support(w)
    h.ensure('generalized_support', bool(ga[0]) == bool(gb[1]) and bool(ga[1]) == bool(gb[0]))


def u_sgl_perm(h, perm):
    """sparse group lasso (WeightedL1GroupL2): permuting the features together with their weights and group
    membership leaves value / prox unchanged up to the permutation"""
    Pm = P()
    al = h.real('alpha')
    s = h.real('step')
    h.assume(al > 0, s > 0)
    p = 3
    layA = [[0, 2], [1]]
    # new feature k is old feature perm[k]; old feature i sits at new position inv[i]
    inv = [perm.index(i) for i in range(p)]
    layB = [[inv[i] for i in g] for g in layA]
    wg = h.vec('wg', 2)
    wf = h.vec('wf', p)
    for k in range(2):
        h.assume(wg[k] >= 0)
    for k in range(p):
        h.assume(wf[k] >= 0)
    wfB = h.arr([wf[perm[k]] for k in range(p)])

    def mk(lay, wfeat):
        gp = np.cumsum([0] + [len(g) for g in lay]).astype(np.int32)
        gi = np.array([i for g in lay for i in g], dtype=np.int32)
        return h.penalty(Pm.WeightedL1GroupL2, alpha=al, weights_groups=wg, weights_features=wfeat, grp_ptr=gp, grp_indices=gi)
    a, b = mk(layA, wf), mk(layB, wfB)
    w = h.vec('w', p)
    wB = h.arr([w[perm[k]] for k in range(p)])
    va = a.value(w)
    h.observe('value', va)
    h.ensure('value', h.eq(va, b.value(wB)))
    for g, grp in enumerate(layA):
        x = h.vec('x%d_' % g, len(grp))
        pa = a.prox_1group(x, s, g)
        pb = b.prox_1group(x, s, g)          # same group, same member order, features renamed
        for k in range(len(grp)):
            h.ensure('prox[%d][%d]' % (g, k), h.eq(pa[k], pb[k]))


def u_task_perm(h):
    Pm, Dm = P(), D()
    al = h.real('alpha')
    s = h.real('step')
    h.assume(al > 0, s > 0)
    n, p, T = 2, 2, 2
    pen = h.penalty(Pm.L2_1, alpha=al)
    W = h.mat('W', p, T)
    Wp = h.arr([[W[j, 1], W[j, 0]] for j in range(p)])
    va = pen.value(W)
    h.observe('value', va)
    h.ensure('penalty-value', h.eq(va, pen.value(Wp)))
    x = h.vec('x', T)
    pa = pen.prox_1feat(x, s, 0)
    pb = pen.prox_1feat(h.arr([x[1], x[0]]), s, 0)
    h.ensure('prox', h.and_(h.eq(pa[0], pb[1]), h.eq(pa[1], pb[0])))
    X = h.mat('X', n, p)
    Y = h.mat('Y', n, T)
    XW = h.mat('XW', n, T)
    Yp = h.arr([[Y[i, 1], Y[i, 0]] for i in range(n)])
    XWp = h.arr([[XW[i, 1], XW[i, 0]] for i in range(n)])
    df = h.datafit(Dm.QuadraticMultiTask)
    df.initialize(X, Y)
    v = df.value(Y, W, XW)
    g = [df.gradient_j(X, Y, W, XW, j) for j in range(p)]
    df.initialize(X, Yp)
    h.ensure('datafit-value', h.eq(v, df.value(Yp, Wp, XWp)))
    for j in range(p):
        gp = df.gradient_j(X, Yp, Wp, XWp, j)
        h.ensure('gradient[%d]' % j, h.and_(h.eq(g[j][0], gp[1]), h.eq(g[j][1], gp[0])))
    G = h.mat('G', p, T)
    Gp = h.arr([[G[j, 1], G[j, 0]] for j in range(p)])
    sa, sb = pen.subdiff_distance(W, G, np.arange(p)), pen.subdiff_distance(Wp, Gp, np.arange(p))
    for j in range(p):
        h.ensure('score[%d]' % j, h.eq(sa[j], sb[j]))


def u_multitask_step_perm(h, X, j):
    """one real multitask coordinate step on (Y, W) and on the task-swapped problem: results are the swap of each other,
    and the model fit stays X W in both"""
    from skglm.solvers.multitask_bcd import _bcd_epoch
    from checks.common import X_of
    Pm, Dm = P(), D()
    Xc = X_of(X)
    n, p = Xc.shape
    T = 2
    al = h.real('alpha')
    h.assume(al > 0)
    pen = h.penalty(Pm.L2_1, alpha=al)
    Y = h.mat('Y', n, T)
    W = h.mat('W', p, T)
    Xd = h.const(Xc)

    def run(Ym, Wm):
        df = h.datafit(Dm.QuadraticMultiTask)
        if h.mode == 'sym':
            XW = h.arr([[sum(Xc[i, k] * Wm[k, t] for k in range(p) if Xc[i, k] != 0) for t in range(T)] for i in range(n)])
        else:
            XW = Xc @ np.asarray(Wm, dtype=float)
        df.initialize(Xd, Ym)
        lc = df.get_lipschitz(Xd, Ym)
        W1, XW1 = Wm.copy(), XW.copy()
        _bcd_epoch(Xd, Ym, W1, XW1, lc, df, pen, np.array([j], dtype=np.int64))
        return W1, XW1
    Ys = h.arr([[Y[i, 1], Y[i, 0]] for i in range(n)]) if h.mode == 'sym' else np.asarray(Y)[:, ::-1].copy()
    Ws = h.arr([[W[k, 1], W[k, 0]] for k in range(p)]) if h.mode == 'sym' else np.asarray(W)[:, ::-1].copy()
    W1, XW1 = run(Y, W)
    W2, XW2 = run(Ys, Ws)
    h.observe('w', W1[j, 0])
    ok = h.true()
    for k in range(p):
        ok = h.and_(ok, h.and_(h.eq(W1[k, 0], W2[k, 1]), h.eq(W1[k, 1], W2[k, 0])))
    h.ensure('step-commutes-with-task-swap', ok)
    cons = h.true()
    for i in range(n):
        for t in range(T):
            cons = h.and_(cons, h.eq(XW1[i, t], sum(Xc[i, k] * W1[k, t] for k in range(p) if Xc[i, k] != 0)))
            cons = h.and_(cons, h.eq(XW2[i, t], sum(Xc[i, k] * W2[k, t] for k in range(p) if Xc[i, k] != 0)))
    h.ensure('model-fit-consistent', cons)


def u_pn_direction_perm(h, X='corr32', sparse=True, fit_intercept=False):
    """prox-Newton's inner coordinate descent (real `_descent_direction` / `_descent_direction_s`, one sweep: tol = inf) on
    (X, weights, w) with working set [0, 1] and on the feature-swapped problem (columns, WeightedL1 weights and coefficients
    permuted together) with working set [1, 0] -- the same features in the same order under other names: the directions
    must coincide entry by entry.  Exercises every place where a working-set POSITION could be used for a FEATURE index."""
    import skglm.solvers.prox_newton as pn
    from checks.common import X_of
    Pm, Dm = P(), D()
    Xc = X_of(X)
    n, p = Xc.shape
    assert p == 2
    al = h.real('alpha')
    h.assume(al > 0)
    wt = h.vec('wt', p)
    for k in range(p):
        h.assume(wt[k] >= 0)
    y = h.vec('y', n)
    w = h.vec('w', p + (1 if fit_intercept else 0))

    def run(cols, ws):
        Xm = Xc[:, cols]
        if h.mode == 'sym':
            wts = h.arr([wt[c] for c in cols])
            wm = h.arr([w[c] for c in cols] + ([w[p]] if fit_intercept else []))
            Xw = h.arr([sum(Xm[i, k] * wm[k] for k in range(p) if Xm[i, k] != 0) + (wm[p] if fit_intercept else 0.0)
                        for i in range(n)])
        else:
            wts = np.array([float(wt[c]) for c in cols])
            wm = np.array([float(w[c]) for c in cols] + ([float(w[p])] if fit_intercept else []))
            Xw = Xm @ wm[:p] + (wm[p] if fit_intercept else 0.0)
        pen = h.penalty(Pm.WeightedL1, alpha=al, weights=wts)
        df = h.datafit(Dm.Quadratic)
        Xd = h.const(Xm)
        raw = df.raw_grad(y, Xw)
        wsa = np.array(ws, dtype=np.int64)
        gl = [sum(Xm[i, j] * raw[i] for i in range(n) if Xm[i, j] != 0) for j in ws]
        grad_ws = h.arr(gl) if h.mode == 'sym' else np.array([float(g) for g in gl])
        if sparse:
            Xs = h.csc(Xd)
            return pn._descent_direction_s(Xs.data, Xs.indptr, Xs.indices, y, wm, Xw, fit_intercept, grad_ws, df, pen, wsa,
                                           np.inf, 'subdiff')
        return pn._descent_direction(Xd, y, wm, Xw, fit_intercept, grad_ws, df, pen, wsa, np.inf, 'subdiff')
    dA, XdA, _ = run([0, 1], [0, 1])
    dB, XdB, _ = run([1, 0], [1, 0])
    h.observe('d0', dA[0])
    ok = h.true()
    for k in range(len(dA)):
        ok = h.and_(ok, h.eq(dA[k], dB[k]))
    for i in range(n):
        ok = h.and_(ok, h.eq(XdA[i], XdB[i]))
    h.ensure('direction-commutes-with-feature-renaming', ok)


def u_grp_converter(h):
    from skglm.utils.data import grp_converter
    gi1, gp1 = grp_converter([[0, 2], [1]], 3)
    gi2, gp2 = grp_converter([[1], [0, 2]], 3)
    groups1 = sorted(tuple(sorted(gi1[gp1[g]:gp1[g + 1]])) for g in range(len(gp1) - 1))
    groups2 = sorted(tuple(sorted(gi2[gp2[g]:gp2[g + 1]])) for g in range(len(gp2) - 1))
    h.ensure('same-partition', groups1 == groups2 == [(0, 2), (1,)])
    gi3, gp3 = grp_converter(2, 4)
    gi4, gp4 = grp_converter([2, 2], 4)
    gi5, gp5 = grp_converter([[0, 1], [2, 3]], 4)
    h.ensure('three-formats-agree', list(gi3) == list(gi4) == list(gi5) and list(gp3) == list(gp4) == list(gp5))
    x = h.real('x')
    h.observe('x', x)
    h.ensure('dtype-int32', str(gi1.dtype) == 'int32' and str(gp1.dtype) == 'int32')


def u_cox_sample_perm(h, tm, sv, efron, perm):
    """Cox (Breslow / Efron) with tied event times: value and raw_grad are equivariant under a permutation of the samples"""
    from checks.common import D
    Dm = D()
    n = len(tm)
    Xw = h.vec('Xw', n)
    w = h.vec('w', 1)
    Xd = h.const(np.zeros((n, 1)))

    def run(order):
        y = h.const(np.column_stack([np.array([tm[i] for i in order], dtype=float), np.array([sv[i] for i in order], dtype=float)]))
        z = h.arr([Xw[i] for i in order]) if h.mode == 'sym' else np.array([Xw[i] for i in order], dtype=float)
        df = h.datafit(Dm.Cox, use_efron=efron)
        df.initialize(Xd, y)
        return df.value(y, w, z), df.raw_grad(y, z)
    v0, g0 = run(list(range(n)))
    v1, g1 = run(list(perm))
    h.observe('value', v0)
    h.ensure('value-invariant', h.eq(v0, v1))
    for k, i in enumerate(perm):
        h.ensure('raw_grad-equivariant[%d]' % k, h.eq(g1[k], g0[i]))


def units(tier):
    us = []
    q = tier == 'quick'
    perms2 = [(1, 0)]
    perms3 = [(1, 0, 2), (2, 0, 1)] if q else [pp for pp in itertools.permutations(range(3)) if pp != (0, 1, 2)]
    for sp, fi in itertools.product((True, False), (False, True)):
        if q and not sp and fi:
            continue
        us.append(Unit('C15/S/prox-newton-direction-feature-renaming[WeightedL1,sparse=%s,intercept=%s]' % (sp, fi),
                       u_pn_direction_perm, dict(X='corr32', sparse=sp, fit_intercept=fi), wall_s=120, timeout_ms=8000))
    for name in ('WeightedL1', 'WeightedMCPenalty'):
        for pos in (False, True):
            for perm in perms2 + ([] if q else perms3):
                us.append(Unit('C15/K/feature-perm-penalty[%s,positive=%s,perm=%s]' % (name, pos, perm),
                               u_feature_perm_penalty, dict(name=name, perm=perm, positive=pos), wall_s=90))
    for name in ('Quadratic', 'WeightedQuadratic', 'Huber', 'Logistic', 'QuadraticSVC', 'Poisson'):
        for perm in perms2:
            us.append(Unit('C15/K/feature-perm-datafit[%s,perm=%s]' % (name, perm), u_feature_perm_datafit,
                           dict(name=name, perm=perm, n=2 if name == 'Huber' else 3), wall_s=90))
    for name in ('Quadratic', 'WeightedQuadratic', 'Huber', 'Logistic', 'Poisson', 'Gamma'):
        n0 = 2 if name == 'Huber' else 3
        sp = [(1, 0)] if n0 == 2 else ([(2, 0, 1)] if q else [(2, 0, 1), (1, 0, 2), (0, 2, 1)])
        for perm in sp:
            us.append(Unit('C15/K/sample-perm[%s,perm=%s]' % (name, perm), u_sample_perm, dict(name=name, perm=perm),
                           wall_s=120))
        us.append(Unit('C15/K/stacking[%s,k=2]' % name, u_sample_perm,
                       dict(name=name, perm=tuple(range(2)), k_stack=2), wall_s=120))
    for which in ('y-alpha', 'feature-weight'):
        us.append(Unit('C15/K/scaling[%s]' % which, u_scaling, dict(which=which), wall_s=90))
    for pos in ((False,) if q else (False, True)):
        us.append(Unit('C15/K/group-perm[positive=%s]' % pos, u_group_perm, dict(positive=pos), wall_s=300))
    for perm in ([1, 0, 2], [2, 0, 1]) if q else ([1, 0, 2], [2, 0, 1], [0, 2, 1], [1, 2, 0]):
        us.append(Unit('C15/K/sparse-group-lasso-feature-perm[perm=%s]' % perm, u_sgl_perm, dict(perm=perm), wall_s=120))
    us.append(Unit('C15/K/task-perm', u_task_perm, {}, wall_s=120))
    for j in (0, 1):
        us.append(Unit('C15/S/multitask-step-task-swap[j=%d]' % j, u_multitask_step_perm, dict(X='corr32', j=j), wall_s=150,
                       timeout_ms=8000))
    us.append(Unit('C15/K/grp_converter', u_grp_converter, {}, wall_s=30))
    for tm, sv in (([0, 0, 1], [1, 1, 1]), ([1, 1, 0], [1, 0, 1]), ([0, 0, 0], [1, 1, 0])):
        for efron in (False, True):
            for perm in ((1, 0, 2), (2, 0, 1)):
                us.append(Unit('C15/K/Cox-sample-permutation[tm=%s,s=%s,efron=%s,perm=%s]' % (tm, sv, efron, perm), u_cox_sample_perm,
                               dict(tm=tm, sv=sv, efron=efron, perm=perm), wall_s=60))
    return us


MANIFEST = dict(
    claimed=True,
    level_text=("Bounded symbolic model checking of equivariance: for every permutation of <=3 features (with weights), of "
                "groups, of 2 tasks and of <=3 samples, for 2-fold stacking, for the (y, alpha) scaling of quadratic + L1 and "
                "for feature/weight rescaling, the real value, gradients, Lipschitz constants, prox, subdiff_distance, "
                "alpha_max and support code of the transformed problem equals the transformed result of the original problem for "
                "ALL data. So the problem solved and its set of certified points do not depend on storage order."),
    level_note=("Exact reals; small shapes; equivariance of the problem and of the certificate only -- equality of the iterates "
                "of bounded runs is not implied by the property (cyclic sweep order) and is not asserted; solver-level "
                "statements follow from C01 applied to the transformed problem."),
)
