"""C10 -- results do not depend on how X is stored (dense vs CSC; families S, D)."""
import itertools
import numpy as np

from checks.common import Unit, X_of, mk_sep_penalty, P, D
from checks import driver as DR
from checks import steps as ST
from checks.steps import dh
from vf.sym import _isinf

EXPLANATION = ("The same bounded run of the real driver is executed on X dense and on the CSC encoding of the same matrix inside "
               "one symbolic path; returned coefficients, stop_crit and objective history must be equal as terms for all data. "
               "Single coordinate / task-row steps are compared the same way. Combinations a component does not support on "
               "sparse input must be refused with an AttributeError / ValueError naming what is missing.")
ASSUMPTIONS = ["exact reals; CSC reference model (SymCSC) validated against scipy by the concrete replays",
               "float32, CSR / list inputs, C-vs-Fortran order and index dtypes are outside (sklearn conversion + numba typing)"]
BOUNDS = dict(quick="catalogue X (incl. an all-zero column), budgets (1,1) / 1 prox-Newton step / 1 FISTA iteration",
              thorough="more compositions and budgets (2,1)")


def _same(h, a, b, name):
    if _isinf(a) or _isinf(b):
        h.ensure(name, bool(_isinf(a) and _isinf(b)))
    else:
        h.ensure(name, h.eq(a, b))


def u_dense_vs_csc(h, cfg):
    R1 = DR.run_driver(h, dict(cfg, sparse=False))
    w1 = [R1.w[k] for k in range(len(R1.w))]
    o1 = [R1.obj_out[k] for k in range(len(R1.obj_out))]
    s1 = R1.stop_crit
    R2 = DR.run_driver(h, dict(cfg, sparse=True))
    for k in range(len(w1)):
        h.observe('w%d' % k, w1[k])
        _same(h, w1[k], R2.w[k], 'coef[%d]' % k)
    _same(h, s1, R2.stop_crit, 'stop_crit')
    h.ensure('history-length', len(o1) == len(R2.obj_out))
    for k in range(min(len(o1), len(R2.obj_out))):
        _same(h, o1[k], R2.obj_out[k], 'history[%d]' % k)


def u_fista(h, datafit, penalty, X):
    import skglm.solvers as S
    Xc = X_of(X)
    n, p = Xc.shape
    tol = h.real('tol')
    h.assume(tol > 0)
    pen, meta = mk_sep_penalty(h, penalty, p=p, concrete_hyper=True)
    df, y, dmeta = DR.mk_datafit(h, datafit, n)
    Xd = h.const(Xc)
    Xs = h.csc(Xd)
    sol = S.FISTA(max_iter=1, tol=tol)
    df.initialize(Xd, y) if hasattr(df, 'initialize') else None
    w1, o1, s1 = sol._solve(Xd, y, df, pen)
    import copy
    df2 = copy.copy(df) if h.mode == 'sym' else df
    if hasattr(df2, 'initialize_sparse'):
        df2.initialize_sparse(Xs.data, Xs.indptr, Xs.indices, y)
    w2, o2, s2 = sol._solve(Xs, y, df2, pen)
    for k in range(p):
        h.observe('w%d' % k, w1[k])
        _same(h, w1[k], w2[k], 'coef[%d]' % k)
    _same(h, s1, s2, 'stop_crit')
    _same(h, o1[0], o2[0], 'history[0]')


REFUSALS = [
    # (solver ctor, datafit name, penalty name, layout or None, sparse) -> expected
    ('AndersonCD', 'Poisson', 'L1', True), ('AndersonCD', 'Gamma', 'L1', True), ('AndersonCD', 'Gamma', 'L1', False),
    ('GroupBCD', 'LogisticGroup', 'WeightedGroupL2', True), ('GroupProxNewton', 'LogisticGroup', 'WeightedGroupL2', True),
    ('PDCD_WS', 'Pinball', 'L1', True), ('FISTA', 'QuadraticGroup', 'WeightedGroupL2', True),
    ('FISTA', 'Gamma', 'L1', True), ('LBFGS', 'Quadratic', 'L2', True), ('AndersonCD', 'Quadratic', 'L1', True),
    ('ProxNewton', 'Gamma', 'L1', True), ('MultiTaskBCD', 'Quadratic', 'L1', True),
]


def u_refusal(h, solver, datafit, penalty, sparse):
    """solve() on this combination either raises AttributeError/ValueError that names what is missing, or runs"""
    import skglm.solvers as S
    import skglm.datafits as Dm
    import skglm.penalties as Pm
    from skglm.experimental.pdcd_ws import PDCD_WS
    from skglm.experimental.quantile_regression import Pinball
    Xc = X_of('corr32')
    n, p = Xc.shape
    y = h.vec('y', n)
    for i in range(n):
        h.assume(y[i] > 0)
    al = h.real('alpha')
    h.assume(al > 0)
    gp, gi = np.array([0, 1, 2], dtype=np.int32), np.array([0, 1], dtype=np.int32)
    dfs = dict(Poisson=lambda: Dm.Poisson(), Gamma=lambda: Dm.Gamma(), Quadratic=lambda: Dm.Quadratic(),
               LogisticGroup=lambda: Dm.LogisticGroup(gp, gi), QuadraticGroup=lambda: Dm.QuadraticGroup(gp, gi),
               Pinball=lambda: Pinball(0.5))
    pens = dict(L1=lambda: Pm.L1(al), L2=lambda: Pm.L2(al),
                WeightedGroupL2=lambda: Pm.WeightedGroupL2(al, h.const(np.ones(2)), gp, gi))
    sols = dict(AndersonCD=lambda: S.AndersonCD(max_iter=1, max_epochs=1, fit_intercept=False),
                GroupBCD=lambda: S.GroupBCD(max_iter=1, max_epochs=1), GroupProxNewton=lambda: S.GroupProxNewton(max_iter=1),
                PDCD_WS=lambda: PDCD_WS(max_iter=1, max_epochs=1), FISTA=lambda: S.FISTA(max_iter=1),
                LBFGS=lambda: S.LBFGS(max_iter=1), ProxNewton=lambda: S.ProxNewton(max_iter=1, max_pn_iter=1, fit_intercept=False),
                MultiTaskBCD=lambda: S.MultiTaskBCD(max_iter=1, max_epochs=1, fit_intercept=False))
    if h.mode == 'sym':
        df, pen = dfs[datafit](), pens[penalty]()
    else:
        from skglm.utils.jit_compilation import compiled_clone
        df, pen = dfs[datafit](), pens[penalty]()
        if h.jit:
            df, pen = compiled_clone(df), compiled_clone(pen)
    Xd = h.const(Xc)
    X = h.csc(Xd) if sparse else Xd
    sol = sols[solver]()
    h.observe('y0', y[0])
    try:
        sol._validate(X, y, df, pen)
    except (AttributeError, ValueError) as e:
        msg = str(e)
        explained = ('Missing' in msg or 'must implement' in msg or 'not yet supported' in msg or 'not compatible' in msg
                     or 'must be compatible' in msg or 'supports only' in msg)
        h.ensure('refusal-is-explained', explained, info=msg[:200])
        return
    h.ensure('accepted', True)


def units(tier):
    us = []
    q = tier == 'quick'
    comps = [('Quadratic', 'L1'), ('Quadratic', 'WeightedL1'), ('Quadratic', 'MCPenalty'), ('WeightedQuadratic', 'L1'),
             ('Huber', 'L1'), ('QuadraticSVC', 'IndicatorBox'), ('Quadratic', 'L1_plus_L2+')]
    for (df, pen), X in itertools.product(comps, ['corr32', 'zero_last32', 'gen32']):
        for j in (0, 1):
            for fi in (False, True):
                if df == 'QuadraticSVC' and fi:
                    continue
                if q and dh((df, pen, X, j, fi)) % 3:
                    continue
                Xn = 'orth22' if df == 'Huber' else X
                us.append(Unit('C10/S/cd_step[%s,%s,X=%s,j=%d,intercept=%s]' % (df, pen, Xn, j, fi), ST.u_cd_step,
                               dict(datafit=df, penalty=pen, X=Xn, j=j, fit_intercept=fi, descent=False), wall_s=60))
    for X in ('corr32', 'zero_last32'):
        for j in (0, 1):
            us.append(Unit('C10/S/multitask_step[X=%s,j=%d]' % (X, j), ST.u_multitask_step, dict(X=X, j=j, T=2), wall_s=90))
    # group epoch: CSC kernel == dense kernel when both are given the same block constants (the constants themselves come
    # from a randomised power method on CSC input and are outside the term-for-term claim)
    from checks import driver as DRV
    for lay, X in (('single', 'corr32'), ('rev', 'zero_last32'), ('pair', 'gen32')):
        for g in range(len(DRV.GROUP_LAYOUTS[lay])):
            if q and lay == 'pair' and g:
                continue
            us.append(Unit('C10/S/group_step_csc[QuadraticGroup,layout=%s,X=%s,g=%d]' % (lay, X, g), ST.u_group_step,
                           dict(datafit='QuadraticGroup', layout=lay, X=X, g=g, sparse_epoch=True), wall_s=90, timeout_ms=8000))
    runs = []
    for (df, pen), X, fi, strat in itertools.product([('Quadratic', 'L1'), ('Quadratic', 'WeightedL1'), ('WeightedQuadratic', 'L1')],
                                                     ['corr32', 'zero_last32'], (False, True), ('subdiff', 'fixpoint')):
        if q and dh((df, pen, X, fi, strat)) % 4:
            continue
        runs.append(dict(solver='AndersonCD', datafit=df, penalty=pen, X=X, max_iter=1 if q else 2, max_epochs=1, p0=2,
                         fit_intercept=fi, ws_strategy=strat, warm=False))
    for fi in ((False,) if q else (False, True)):
        runs.append(dict(solver='ProxNewton', datafit='Quadratic', penalty='L1', X='corr32', max_iter=1, max_pn_iter=1, p0=2,
                         fit_intercept=fi, ws_strategy='subdiff', warm=False))
    runs.append(dict(solver='ProxNewton', datafit='Logistic', penalty='L1', X='orth22', max_iter=1, max_pn_iter=0, p0=2,
                     fit_intercept=False, ws_strategy='subdiff', warm=True, param_fit=True))
    runs.append(dict(solver='GramCD', datafit='Quadratic', penalty='L1', X='zero_last32', max_iter=1, greedy_cd=True, warm=False,
                     fit_intercept=False))
    runs.append(dict(solver='GramCD', datafit='Quadratic', penalty='L1', X='corr32', max_iter=1, greedy_cd=False, warm=True,
                     fit_intercept=False))
    for c in runs:
        cid = ','.join('%s=%s' % (k, c[k]) for k in sorted(c))
        us.append(Unit('C10/D/dense-vs-csc[%s]' % cid, u_dense_vs_csc, dict(cfg=c), wall_s=150, max_paths=5000,
                       timeout_ms=8000, patched=c['solver'] == 'ProxNewton'))
    # FISTA: the sparse step size comes from the randomised power method (accuracy ~1e-6), so dense and CSC runs agree
    # only up to that accuracy -- not an exact-arithmetic identity; outside this check (C09 bounds the constant).
    for solver, df, pen, sparse in REFUSALS:
        us.append(Unit('C10/D/refusal[%s,%s,%s,sparse=%s]' % (solver, df, pen, sparse), u_refusal,
                       dict(solver=solver, datafit=df, penalty=pen, sparse=sparse), wall_s=60))
    for X, fi in (('corr32', False), ('corr32', True), ('gen32', True)):
        us.append(Unit('C10/S/pn_linesearch[X=%s,intercept=%s]' % (X, fi), ST.u_pn_linesearch, dict(X=X, fit_intercept=fi),
                       wall_s=120, timeout_ms=8000, patched=True))
    # CSC-only constants come from a power method: it must start from a random vector (a fixed start has matrices on which it
    # returns 0, so that the CSC run silently freezes a block the dense run updates) -- C09's unit re-used
    from checks import c09
    us.append(Unit('C10/K/spectral_norm/random-start', c09.u_power_start, {}, wall_s=60))
    return us


MANIFEST = dict(
    claimed=True,
    level_text=("Bounded symbolic model checking of storage independence for dense vs CSC input: one real coordinate / "
                "task-row step and one bounded run of the real AndersonCD, ProxNewton and GramCD drivers are executed on "
                "both encodings of the same matrix inside one symbolic path and must return term-for-term equal coefficients, "
                "stop_crit and objective history for all data (catalogue matrices incl. an all-zero column); combinations "
                "that do not support sparse input must be refused with an AttributeError / ValueError that names what is "
                "missing."),
    level_note=("Exact reals; SymCSC reference model for scipy CSC. Outside and not encodable in this family: float32 "
                "(spec_to_float32 and rounding), CSR / list inputs (sklearn conversion), C-vs-Fortran order and index dtypes "
                "(numba typing/layout); sparse group Lipschitz constants use the power method and are compared only at "
                "accessor level (C09)."),
)
