"""C07 -- proximal operators return a global minimiser of the prox objective (family K)."""
import numpy as np

from checks.common import (Unit, P, mk_sep_penalty, feasible, pen_value_1d, finite_or_flag,
                           SEP_CONVEX, SEP_NONCONVEX)

EXPLANATION = ("Kernel obligations: one call of the real prox code with every numeric argument symbolic; the "
               "prox objective is rebuilt from the penalty's real value() code; z3 decides, per control path, that "
               "no competitor (1-D) / no feasible direction (blocks, first-order form + convexity) improves on it.")
ASSUMPTIONS = [
    "exact real arithmetic (floats literals that are the nearest double of a simple rational denote that rational)",
    "alpha > 0, step > 0, weights >= 0; MCP: step*weight < gamma; SCAD: gamma > 2, step < gamma - 1",
    "block penalties (dimension <= 2): first-order optimality of the prox objective in every feasible direction, "
    "turned into global minimality by convexity (stated lemma); radial non-convex block penalties: minimiser lies "
    "on the ray through x (stated lemma), competitor restricted to that ray",
]
BOUNDS = dict(quick="separable: all (x, step, hyper-parameters, weights, competitor u) in R; vector length 2, j in {0,1}; "
                    "groups / task rows of dimension <= 2; SLOPE n <= 2",
              thorough="as quick plus SLOPE n = 3, group layouts [[0,1]], [[1],[0]], [[0],[1]]")


# ---------------------------------------------------------------------------------------------
def u_prox1d(h, name, j=0, p=2, gamma=None):
    x = h.real('x')
    s = h.real('step')
    h.assume(s > 0)
    pen, meta = mk_sep_penalty(h, name, p=p, step=s, gamma=gamma)
    pr = pen.prox_1d(x, s, j)
    h.observe('prox', pr)
    h.ensure('feasible', feasible(h, meta, pr))
    u = h.real('u')
    h.assume(feasible(h, meta, u))
    inf_p, vp = finite_or_flag(h, pen_value_1d(h, pen, pr, j, p))
    h.ensure('value-finite-at-prox', h.not_(inf_p) if not isinstance(inf_p, bool) else (not inf_p))
    if isinstance(inf_p, bool) and inf_p:
        return
    inf_u, vu = finite_or_flag(h, pen_value_1d(h, pen, u, j, p))
    if isinstance(inf_u, bool) and inf_u:
        return   # competitor infeasible for the indicator: nothing to compare
    obj_p = (pr - x) * (pr - x) / 2 + s * vp
    obj_u = (u - x) * (u - x) / 2 + s * vu
    h.observe('obj_p', obj_p)
    h.ensure('globalmin', h.ge(obj_u, obj_p))


def _group_pen(h, kind, layout, positive=False):
    Pm = P()
    al = h.real('alpha')
    h.assume(al > 0)
    grp_ptr = np.cumsum([0] + [len(g) for g in layout]).astype(np.int32)
    grp_idx = np.array([i for g in layout for i in g], dtype=np.int32)
    ng = len(layout)
    pfeat = len(grp_idx)
    wg = h.vec('wg', ng)
    for g in range(ng):
        h.assume(wg[g] >= 0)
    if kind == 'WeightedGroupL2':
        pen = h.penalty(Pm.WeightedGroupL2, alpha=al, weights=wg, grp_ptr=grp_ptr, grp_indices=grp_idx,
                        positive=positive)
    else:
        wf = h.vec('wf', pfeat)
        for k in range(pfeat):
            h.assume(wf[k] >= 0)
        pen = h.penalty(Pm.WeightedL1GroupL2, alpha=al, weights_groups=wg, weights_features=wf,
                        grp_ptr=grp_ptr, grp_indices=grp_idx)
    return pen, al


def _dual_vec(h, base, d):
    """vector base + eps*d (symbolic mode only)"""
    from vf.dual import Dual
    return h.arr([Dual(b, t) for b, t in zip(base, d)])


def u_prox_group(h, kind, layout, g, positive=False):
    """first-order optimality of the prox objective of group g in every feasible direction."""
    from vf.dual import Dual, tangent
    s = h.real('step')
    h.assume(s > 0)
    pen, al = _group_pen(h, kind, layout, positive)
    idx = layout[g]
    x = h.vec('x', len(idx))
    h.expect_exc('F3', ZeroDivisionError, when=h.all_([h.eq(x[k], 0) for k in range(len(idx))]))
    pr = pen.prox_1group(x, s, g)
    for k in range(len(idx)):
        h.observe('prox%d' % k, pr[k])
    pfeat = sum(len(q) for q in layout)
    if positive:
        h.ensure('feasible', h.all_([h.ge(pr[k], 0) for k in range(len(idx))]))
    if h.mode != 'sym':
        # concrete replay: compare the objective at prox with the objective at nearby points
        def obj(v):
            full = np.zeros(pfeat)
            full[idx] = v
            return 0.5 * np.sum((v - x) ** 2) + s * pen.value(full)
        base = obj(np.asarray(pr, dtype=float))
        ok = True
        rng = np.random.RandomState(0)
        for _ in range(200):
            dv = rng.randn(len(idx)) * 10 ** rng.uniform(-6, 0)
            v = np.asarray(pr, dtype=float) + dv
            if positive:
                v = np.maximum(v, 0)
            if obj(v) < base - 1e-9 * (abs(base) + 1):
                ok = False
        h.ensure('first-order', ok)
        return
    d = h.vec('d', len(idx))
    if positive:
        for k in range(len(idx)):
            h.assume(h.implies(h.eq(pr[k], 0), h.ge(d[k], 0)))
    full = [0.0] * pfeat
    for k, i in enumerate(idx):
        full[i] = Dual(pr[k], d[k])
    val = pen.value(h.arr(full))
    quad_t = 0.0
    for k in range(len(idx)):
        quad_t = quad_t + (pr[k] - x[k]) * d[k]
    h.ensure('first-order', h.ge(quad_t + s * tangent(val), 0))


def u_prox_row_convex(h, T=2):
    """L2_1.prox_1feat: first-order optimality in every direction (row of T tasks)."""
    from vf.dual import Dual, tangent
    Pm = P()
    al = h.real('alpha')
    s = h.real('step')
    h.assume(al > 0, s > 0)
    pen = h.penalty(Pm.L2_1, alpha=al)
    x = h.vec('x', T)
    h.expect_exc('F3', ZeroDivisionError, when=h.all_([h.eq(x[k], 0) for k in range(T)]))
    pr = pen.prox_1feat(x, s, 0)
    for k in range(T):
        h.observe('prox%d' % k, pr[k])
    if h.mode != 'sym':
        def obj(v):
            return 0.5 * np.sum((v - x) ** 2) + s * pen.value(v[None, :])
        base = obj(np.asarray(pr, dtype=float))
        rng = np.random.RandomState(0)
        ok = True
        for _ in range(200):
            v = np.asarray(pr, dtype=float) + rng.randn(T) * 10 ** rng.uniform(-6, 0)
            if obj(v) < base - 1e-9 * (abs(base) + 1):
                ok = False
        h.ensure('first-order', ok)
        return
    d = h.vec('d', T)
    W = h.arr([[Dual(pr[k], d[k]) for k in range(T)]])
    val = pen.value(W)
    quad_t = 0.0
    for k in range(T):
        quad_t = quad_t + (pr[k] - x[k]) * d[k]
    h.ensure('first-order', h.ge(quad_t + s * tangent(val), 0))


UNIT_DIRS = {1: [[1.0], [-1.0]], 2: [[1.0, 0.0], [0.0, -1.0], [0.6, 0.8]]}


def u_prox_row_radial(h, name, T=2, e=None, gamma=None):
    """BlockMCPenalty / BlockSCAD prox_1feat: global minimality against every competitor on the ray through
    x (radial-reduction lemma), objective from the real block value()."""
    Pm = P()
    al = h.real('alpha')
    s = h.real('step')
    g = h.real('gamma') if gamma is None else h.constant(gamma)
    h.assume(al > 0, s > 0)
    if name == 'BlockMCPenalty':
        h.assume(g > s)
        pen = h.penalty(Pm.BlockMCPenalty, alpha=al, gamma=g)
    else:
        h.assume(g > 2, g - 1 > s)
        pen = h.penalty(Pm.BlockSCAD, alpha=al, gamma=g)
    # x = r * e with e a unit vector
    r = h.real('r')
    h.assume(r >= 0)
    e = [float(v) for v in e]
    x = h.arr([r * e[k] for k in range(T)])
    h.expect_exc('F3', ZeroDivisionError, when=h.eq(r, 0))
    pr = pen.prox_1feat(x, s, 0)
    for k in range(T):
        h.observe('prox%d' % k, pr[k])
        h.ensure('finite%d' % k, h.is_finite(pr[k]), findings={'F3': h.eq(r, 0)})
    t = h.real('t')
    h.assume(t >= 0)
    v = h.arr([[t * e[k] for k in range(T)]])
    vp = pen.value(h.arr([[pr[k] for k in range(T)]]))
    vv = pen.value(v)
    qp, qv = 0.0, 0.0
    for k in range(T):
        qp = qp + (pr[k] - x[k]) * (pr[k] - x[k]) / 2
        qv = qv + (t * e[k] - x[k]) * (t * e[k] - x[k]) / 2
    h.ensure('globalmin-on-ray', h.ge(qv + s * vv, qp + s * vp), findings={'F3': h.eq(r, 0)})


def u_prox_slope(h, n=2):
    from vf.dual import Dual, tangent
    import skglm.penalties as Pm
    s = h.real('step')
    h.assume(s > 0)
    al = h.vec('al', n)
    for k in range(n):
        h.assume(al[k] >= 0)
    for k in range(n - 1):
        h.assume(al[k] >= al[k + 1])
    pen = h.penalty(Pm.SLOPE, alphas=al)
    x = h.vec('x', n)
    pr = pen.prox_vec(x, s)
    for k in range(n):
        h.observe('prox%d' % k, pr[k])
    if h.mode != 'sym':
        def obj(v):
            return 0.5 * np.sum((v - x) ** 2) + s * pen.value(v)
        base = obj(np.asarray(pr, dtype=float))
        rng = np.random.RandomState(0)
        ok = True
        for _ in range(200):
            v = np.asarray(pr, dtype=float) + rng.randn(n) * 10 ** rng.uniform(-6, 0)
            if obj(v) < base - 1e-9 * (abs(base) + 1):
                ok = False
        h.ensure('first-order', ok)
        return
    d = h.vec('d', n)
    val = pen.value(h.arr([Dual(pr[k], d[k]) for k in range(n)]))
    quad_t = 0.0
    for k in range(n):
        quad_t = quad_t + (pr[k] - x[k]) * d[k]
    h.ensure('first-order', h.ge(quad_t + s * tangent(val), 0))


def u_prox_logsum_convex(h):
    """LogSumPenalty.prox_1d in the regime sqrt(alpha*step) <= eps, where the prox objective
    z -> (z - x)^2/2 + alpha*step*log(1 + |z|/eps) is convex (second derivative 1 - a/(eps+|z|)^2 >= 0; stated lemma), so
    a stationary point is the global minimiser.  Stationarity is ALGEBRAIC: p = 0 needs |x| <= a/eps; p != 0 needs
    sign(p) = sign(x) and (|p| - |x|)(eps + |p|) + a = 0.  The non-convex regime (threshold = root of a transcendental
    function located by a 30-step bisection on log terms) is outside what the solver can decide -- see DESIGN 10.6."""
    Pm = P()
    x, s, al, eps = h.real('x'), h.real('step'), h.real('alpha'), h.real('eps')
    h.assume(s > 0, al > 0, eps > 0)
    a = al * s
    h.assume(a <= eps * eps)
    pen = h.penalty(Pm.LogSumPenalty, alpha=al, eps=eps)
    pr = pen.prox_1d(x, s, 0)
    h.observe('prox', pr)
    ap, ax = abs(pr), abs(x)
    at_zero = h.and_(h.eq(pr, 0), h.le(ax * eps, a))
    moved = h.and_(h.gt(pr * x, 0), h.eq((ap - ax) * (eps + ap) + a, 0))
    h.ensure('stationary(convex regime => global minimiser)', h.or_(at_zero, moved))


def units(tier):
    us = []
    us.append(Unit('C07/K/LogSumPenalty/prox_1d[convex regime]', u_prox_logsum_convex, {}, wall_s=90))
    for name in SEP_CONVEX + SEP_NONCONVEX:
        for j in (0, 1):
            if name == 'SCAD':
                # shrink rule: gamma concretised over a small catalogue (symbolic gamma: 20 s unknowns)
                for gam in ((3.0, 3.7) if tier == 'quick' else (2.5, 3.0, 3.7, 10.0)):
                    us.append(Unit('C07/K/SCAD/prox_1d[j=%d,gamma=%s]' % (j, gam), u_prox1d,
                                   dict(name=name, j=j, gamma=gam), wall_s=90))
                continue
            us.append(Unit('C07/K/%s/prox_1d[j=%d]' % (name, j), u_prox1d, dict(name=name, j=j), wall_s=60))
    layouts = [[[0, 1]], [[1], [0]]]
    if tier == 'thorough':
        layouts += [[[0], [1]], [[0, 2], [1]]]
    for li, lay in enumerate(layouts):
        for g in range(len(lay)):
            for pos in (False, True):
                us.append(Unit('C07/K/WeightedGroupL2%s/prox_1group[layout=%d,g=%d]' % ('+' if pos else '', li, g),
                               u_prox_group, dict(kind='WeightedGroupL2', layout=lay, g=g, positive=pos), wall_s=60))
            us.append(Unit('C07/K/WeightedL1GroupL2/prox_1group[layout=%d,g=%d]' % (li, g),
                           u_prox_group, dict(kind='WeightedL1GroupL2', layout=lay, g=g), wall_s=60))
    for T in (1, 2):
        us.append(Unit('C07/K/L2_1/prox_1feat[T=%d]' % T, u_prox_row_convex, dict(T=T), wall_s=60))
        for nm in ('BlockMCPenalty', 'BlockSCAD'):
            for ei, e in enumerate(UNIT_DIRS[T] if (tier == 'thorough' and nm == 'BlockMCPenalty') else UNIT_DIRS[T][:2]):
                gams = (None,) if nm == 'BlockMCPenalty' else ((3.0,) if tier == 'quick' else (2.5, 3.7))
                for gam in gams:
                    us.append(Unit('C07/K/%s/prox_1feat[T=%d,dir=%d,gamma=%s]' % (nm, T, ei, gam), u_prox_row_radial,
                                   dict(name=nm, T=T, e=e, gamma=gam), wall_s=90))
    for n in ((1, 2) if tier == 'quick' else (1, 2, 3)):
        us.append(Unit('C07/K/SLOPE/prox_vec[n=%d]' % n, u_prox_slope, dict(n=n), wall_s=120))
    return us

MANIFEST = dict(
    claimed=True,
    level_text=("Bounded symbolic model checking of every proximal operator: one call of the real prox code with all "
                "numeric arguments symbolic; z3 decides on every control path that no competitor improves the prox "
                "objective rebuilt from the penalty's real value() (1-D: literal forall-u query; blocks of dimension <= 2 "
                "and SLOPE: first-order optimality in every feasible direction via dual numbers + convexity lemma; radial "
                "non-convex blocks: every competitor on the ray through x). Unit tests only sample points; thresholds and "
                "x = 0 are single branches here."),
    level_note=("Exact real arithmetic, not IEEE. alpha>0, step>0, weights>=0 (zero included); MCP step*weight<gamma; SCAD "
                "gamma>2 and step<gamma-1 with gamma from a small catalogue (shrink rule); group/row dimension <= 2; SLOPE "
                "n<=2 (3 thorough); block MCP/SCAD directions from a catalogue of unit vectors. Lemmas trusted: convexity => "
                "first-order optimality is global; radial reduction for penalties of the row norm. Log-sum prox: only the "
                "convex regime alpha*step <= eps^2 (algebraic stationarity); its non-convex regime (threshold = root of a "
                "transcendental function located by bisection; also where the rounding defect F34 lived) is outside the "
                "encodable fragment. L0.5, L2/3 and the experimental Pinball/SqrtQuadratic prox are not covered here."),
)
