"""C19 -- degenerate data is handled: null columns get zero, nothing blows up (families D, K)."""
import itertools
import numpy as np

from checks.common import Unit, X_of
from checks import driver as DR
from checks import steps as ST
from checks.steps import dh
from vf.sym import _isinf

EXPLANATION = ("Bounded runs of the real drivers on the degenerate half of the design catalogue (all-zero column first / last, "
               "duplicated column, constant column, n < p, single feature, widely different scales) with symbolic y (so the "
               "y = 0 / constant branches are explored), alpha, tol: no feasible path raises ZeroDivisionError or any other "
               "unexplained exception, every returned number is finite, from a cold start the penalised coefficient of an "
               "all-zero column is exactly 0, and a tolerance stop carries a valid certificate.")
ASSUMPTIONS = ["exact reals; budgets (2,1); cold start", "the only accepted exception is a ValueError with an explanatory message"]
BOUNDS = dict(quick="AndersonCD, GramCD, ProxNewton x 7 degenerate designs (sub-sampled)", thorough="all combinations, dense and CSC")

DEGENERATE = ['zero_last32', 'zero_first32', 'dup32', 'const32', 'wide23', 'single31', 'scale32']


def u_degenerate(h, cfg):
    Xc = X_of(cfg['X'])
    n, p = Xc.shape
    h.allow_exc(ValueError, 'should only take positive values|SmallResidual')
    R = DR.run_driver(h, cfg)
    w = [R.w[k] for k in range(len(R.w))]
    for k in range(len(w)):
        h.observe('w%d' % k, w[k])
        h.ensure('finite-coef[%d]' % k, h.is_finite(w[k]))
    for k in range(len(R.obj_out)):
        h.ensure('finite-history[%d]' % k, h.is_finite(R.obj_out[k]))
    for j in range(p):
        if not np.any(Xc[:, j]):
            h.ensure('zero-column-coef-is-zero[%d]' % j, h.eq(w[j], 0))
    sc = R.stop_crit
    stopped = h.le(sc, R.tol)
    if (h.mode == 'sym' and bool(stopped)) or (h.mode != 'sym' and stopped.strict):
        terms = DR.violation_terms(h, R, w)
        ok = h.true()
        for t in terms:
            ok = h.and_(ok, h.false() if _isinf(t) else h.le(t, R.tol))
        h.ensure('certificate', ok)


def u_zero_group(h, solver, layout, X, fit_intercept=False):
    """group solvers on an all-zero group: no division by zero, zero group stays zero"""
    import skglm.solvers as S
    Xc = X_of(X)
    n, p = Xc.shape
    lay = DR.GROUP_LAYOUTS[layout]
    dname = 'QuadraticGroup' if solver == 'GroupBCD' else 'LogisticGroup'     # prox-Newton needs raw_grad / raw_hessian
    df, pen, meta = DR.mk_group_objects(h, dname, 'WeightedGroupL2', lay)
    y = h.vec('y', n) if solver == 'GroupBCD' else h.const(np.array([1.0, -1.0, 1.0][:n]))
    tol = h.real('tol')
    h.assume(tol > 0)
    Xd = h.const(Xc)
    if solver == 'GroupBCD':
        sol = S.GroupBCD(max_iter=2, max_epochs=1, p0=len(lay), tol=tol, fit_intercept=fit_intercept)
    else:
        DR._patch_pn(h, 2, 2)
        sol = S.GroupProxNewton(max_iter=1, max_pn_iter=1, p0=len(lay), tol=tol, fit_intercept=fit_intercept)
    try:
        w, obj, sc = sol._solve(Xd, y, df, pen)
    finally:
        DR._patch_pn(h, None, None)
    for k in range(len(w)):
        h.observe('w%d' % k, w[k])
        h.ensure('finite-coef[%d]' % k, h.is_finite(w[k]))
    for j in range(p):
        if not np.any(Xc[:, j]):
            h.ensure('zero-column-coef-is-zero[%d]' % j, h.eq(w[j], 0))


def u_zero_block_constants(h, sparse):
    """block constants of QuadraticGroup on a design with an all-zero group: finite, and exactly 0 for the zero group (the CSC
    variant runs the power method on an all-zero block)"""
    from checks.common import D
    Dm = D()
    Xc = X_of('zero_first32')
    n, p = Xc.shape
    gp, gi = np.array([0, 1, 2], dtype=np.int32), np.array([0, 1], dtype=np.int32)
    df = h.datafit(Dm.QuadraticGroup, grp_ptr=gp, grp_indices=gi)
    y = h.vec('y', n)
    Xd = h.const(Xc)
    if sparse:
        Xs = h.csc(Xd)
        L = df.get_lipschitz_sparse(Xs.data, Xs.indptr, Xs.indices, y)
    else:
        L = df.get_lipschitz(Xd, y)
    h.observe('probe', 1.0)
    h.ensure('constant-of-the-zero-group-is-0', h.eq(L[0], 0))
    h.ensure('finite-constants', h.and_(h.is_finite(L[0]), h.is_finite(L[1])))


def units(tier):
    us = []
    q = tier == 'quick'
    runs = []
    for X, (df, pen), fi, sparse in itertools.product(DEGENERATE, [('Quadratic', 'L1'), ('Quadratic', 'WeightedL1'),
                                                                     ('Quadratic', 'MCPenalty'), ('Huber', 'L1')],
                                                      (False, True), (False, True)):
        if df == 'Huber' and X not in ('zero_last32', 'single31'):
            continue
        if pen == 'MCPenalty' and X == 'scale32':
            continue      # catalogue gamma is outside the well-posed range for the tiny column
        if q and dh((X, df, pen, fi, sparse)) % 5:
            continue
        runs.append(dict(solver='AndersonCD', datafit=df, penalty=pen, X=X, max_iter=2, max_epochs=1, p0=1 if fi else 2,
                         fit_intercept=fi, ws_strategy='subdiff' if sparse else 'fixpoint', warm=False, sparse=sparse))
    for X, pen, greedy in itertools.product(DEGENERATE, ['L1', 'WeightedL1'], (False, True)):
        if q and dh((X, pen, greedy)) % 3:
            continue
        runs.append(dict(solver='GramCD', datafit='Quadratic', penalty=pen, X=X, max_iter=2, greedy_cd=greedy, warm=False,
                         fit_intercept=False))
    for X, fi in itertools.product(['zero_last32', 'zero_first32', 'dup32', 'single31'], (False, True)):
        if q and dh((X, fi)) % 2:
            continue
        runs.append(dict(solver='ProxNewton', datafit='Quadratic', penalty='L1', X=X, max_iter=1, max_pn_iter=1, p0=2,
                         fit_intercept=fi, ws_strategy='subdiff', warm=False))
    # GroupBCD on designs with an all-zero / duplicated group, both scoring strategies: certificate of the returned point
    for X, strat, fi in itertools.product(['zero_first32', 'zero_last32', 'dup32'], ('subdiff', 'fixpoint'), (False, True)):
        if q and fi and X != 'zero_first32':
            continue
        runs.append(dict(solver='GroupBCD', datafit='QuadraticGroup', penalty='WeightedGroupL2', X=X, layout='single', max_iter=2,
                         max_epochs=1, p0=1, fit_intercept=fi, ws_strategy=strat, warm=False, wg_concrete=[1.0, 0.5]))
    # an all-zero column whose zeros are STORED in the CSC arrays (zeroed in place): numerically but not structurally empty
    for X in ('zero_first32', 'zero_last32'):
        runs.append(dict(solver='AndersonCD', datafit='Quadratic', penalty='L1', X=X, max_iter=2, max_epochs=1, p0=2, fit_intercept=False,
                         ws_strategy='subdiff', warm=False, sparse=True, explicit_zeros=True))
        runs.append(dict(solver='ProxNewton', datafit='Quadratic', penalty='L1', X=X, max_iter=1, max_pn_iter=1, p0=2, fit_intercept=False,
                         ws_strategy='subdiff', warm=False, sparse=True, explicit_zeros=True))
    for c in runs:
        cid = ','.join('%s=%s' % (k, c[k]) for k in sorted(c))
        us.append(Unit('C19/D/run[%s]' % cid, u_degenerate, dict(cfg=c), wall_s=120, max_paths=4000, timeout_ms=8000,
                       patched=c['solver'] == 'ProxNewton'))
    for solver in ('GroupBCD', 'GroupProxNewton'):
        for lay, X in (('rev', 'zero_last32'), ('rev', 'zero_first32')):
            us.append(Unit('C19/D/zero-group[%s,layout=%s,X=%s]' % (solver, lay, X), u_zero_group,
                           dict(solver=solver, layout=lay, X=X), wall_s=150, timeout_ms=8000, patched=solver == 'GroupProxNewton'))
    for sp in (False, True):
        us.append(Unit('C19/K/zero-block-constants[sparse=%s]' % sp, u_zero_block_constants, dict(sparse=sp), wall_s=90, timeout_ms=8000))
    from checks import steps as STP
    for X, ez in (('zero_first32', True), ('zero_last32', True), ('zero_first32', False)):
        us.append(Unit('C19/D/MultiTaskBCD[T=1,X=%s,csc,explicit_zeros=%s]' % (X, ez), STP.u_multitask_run,
                       dict(X=X, fit_intercept=False, sparse=True, warm=False, budget=(2, 1), want=('certificate',), explicit_zeros=ez,
                            p0=2), wall_s=90, timeout_ms=8000))
    # block proximal operators evaluated AT the zero row (zero targets, zero gradient): finite, and the global minimiser
    # (C07's radial units re-used; r = 0 is one of their branches)
    from checks import c07
    for nm, gam in (('BlockMCPenalty', None), ('BlockSCAD', 3.0)):
        us.append(Unit('C19/K/block-prox-at-the-zero-row[%s]' % nm, c07.u_prox_row_radial,
                       dict(name=nm, T=2, e=c07.UNIT_DIRS[2][0], gamma=gam), wall_s=90))
    return us


MANIFEST = dict(
    claimed=True,
    level_text=("Bounded symbolic model checking on degenerate designs: the real AndersonCD / GramCD / ProxNewton / GroupBCD / "
                "GroupProxNewton drivers are run (budgets <= (2,1)) on catalogue matrices with an all-zero column (first, last), "
                "a duplicated column, a constant column, n < p, a single feature and column scales 1e-3..1e3, for ALL y (zero "
                "and constant targets are paths of the exploration), alpha, tol and weights: no feasible path divides by zero "
                "or raises an unexplained exception, all outputs are finite, the coefficient of an all-zero column is exactly 0 "
                "from a cold start, and a tolerance stop carries a valid certificate."),
    level_note=("Exact reals (overflow / rounding outside); cold starts; MultiTaskBCD, FISTA, LBFGS and PDCD_WS on degenerate data "
                "and termination are not covered."),
)
