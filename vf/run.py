"""Check driver:  python -m vf.run <property id> --tier quick|thorough [--only s] [--jobs n] [--replay f]

Exit 0: all obligations explored are discharged (known findings re-confirmed and printed).
Exit 1: a replay-confirmed violation not covered by a listed known finding (prints VIOLATION ...).
Exit 3: harness error / counterexample that does not reproduce / vacuous harness.
"""
import os
os.environ['NUMBA_DISABLE_JIT'] = '1'      # must precede any import of numba / skglm
os.environ.setdefault('OMP_NUM_THREADS', '1')
os.environ.setdefault('OPENBLAS_NUM_THREADS', '1')
os.environ.setdefault('MKL_NUM_THREADS', '1')

import argparse
import hashlib
import importlib
import json
import multiprocessing as mp
import subprocess
import sys
import time

VERIF = os.path.dirname(os.path.dirname(os.path.abspath(__file__)))
REPO = os.environ.get('VF_REPO', '/repo')

_UNITS = []
_KNOWN = set()
_VALIDATE_N = 2


def _work(i):
    from .harness import run_unit_sym
    u = _UNITS[i]
    try:
        return i, run_unit_sym(u, _KNOWN, validate_n=_VALIDATE_N)
    except BaseException as e:   # worker must always answer
        import traceback
        return i, dict(id=u.id, paths=0, transitions=0, obligations=0, discharged=0, nontrivial_paths=0,
                       violations=[], known=[], traces=[], samples=[], functions={}, reach_ok=0,
                       exceptions_allowed=0, complete=False, patched=u.patched, solver={}, wall_s=0,
                       inconclusive=[dict(kind='crash', msg="%s: %s" % (type(e).__name__, e),
                                          tb=traceback.format_exc(limit=8))])


def load_known(prop):
    path = os.path.join(VERIF, 'known_findings.json')
    if not os.path.exists(path):
        return {}
    data = json.load(open(path))
    out = {}
    for e in data.get('findings', []):
        if e.get('status') == 'known' and prop in e.get('properties', [e.get('property')]):
            out[e['id']] = e
    return out


def replay_batch(module, tier, jobs, jit, seed, timeout=3000):
    """Run concrete replays in a subprocess (JIT on when jit=True: the real compiled build)."""
    if not jobs:
        return []
    env = dict(os.environ)
    if jit:
        env.pop('NUMBA_DISABLE_JIT', None)
        if module.rsplit('.', 1)[-1] in ('c20', 'c13'):
            # index-safety obligations: the compiled build raises IndexError only with bounds checking on; a separate,
            # throw-away cache directory keeps bounds-checked objects away from the normal numba cache
            import tempfile
            env['NUMBA_BOUNDSCHECK'] = '1'
            env['NUMBA_CACHE_DIR'] = os.path.join(tempfile.gettempdir(), 'vf_numba_boundscheck')
    else:
        env['NUMBA_DISABLE_JIT'] = '1'
    req = dict(module=module, tier=tier, jobs=jobs, jit=jit, seed=seed)
    p = subprocess.run([sys.executable, '-m', 'vf.replay'], input=json.dumps(req), capture_output=True,
                       text=True, env=env, cwd=VERIF, timeout=timeout)
    if p.returncode != 0:
        sys.stderr.write(p.stderr[-4000:])
        raise RuntimeError("replay subprocess failed (%d)" % p.returncode)
    line = [l for l in p.stdout.splitlines() if l.startswith('RESULT ')][-1]
    return json.loads(line[7:])


def main(argv=None):
    global _UNITS, _KNOWN, _VALIDATE_N
    ap = argparse.ArgumentParser()
    ap.add_argument('prop')
    ap.add_argument('--tier', default=os.environ.get('VERIF_TIER', 'quick'))
    ap.add_argument('--only', default=None)
    ap.add_argument('--jobs', type=int, default=int(os.environ.get('VF_JOBS', '16')))
    ap.add_argument('--replay', default=None)
    ap.add_argument('--list', action='store_true')
    ap.add_argument('--no-evidence', action='store_true')
    ap.add_argument('--verbose', '-v', action='store_true')
    a = ap.parse_args(argv)
    prop = a.prop.upper()
    tier = a.tier if a.tier in ('quick', 'thorough') else 'quick'
    seed = int(os.environ.get('VERIF_SEED', '0') or 0)
    t0 = time.time()
    modname = 'checks.%s' % prop.lower()

    if a.replay:
        return do_replay_file(prop, modname, tier, a.replay, seed)

    sys.path.insert(0, VERIF)
    from . import shim
    shim.install()
    mod = importlib.import_module(modname)
    units = mod.units(tier)
    if a.only:
        units = [u for u in units if a.only in u.id]
    if a.list:
        for u in units:
            print(u.id)
        return 0
    known = load_known(prop)
    _UNITS, _KNOWN = units, set(known)
    _VALIDATE_N = 2 if tier == 'quick' else 3
    order = sorted(range(len(units)), key=lambda i: -units[i].wall_s)
    recs = [None] * len(units)
    nproc = max(1, min(a.jobs, len(units)))
    if nproc == 1:
        for i in order:
            recs[i] = _work(i)[1]
    else:
        ctx = mp.get_context('fork')
        with ctx.Pool(nproc) as pool:
            for i, r in pool.imap_unordered(_work, order, chunksize=1):
                recs[i] = r
                if a.verbose:
                    print("  unit %-60s paths=%-5d obl=%-5d viol=%d inc=%d %.1fs" % (
                        r['id'], r['paths'], r['obligations'], len(r['violations']),
                        len(r['inconclusive']), r.get('wall_s', 0)), flush=True)
    t_sym = time.time() - t0

    # ---- counterexample replay -------------------------------------------------------------
    jobs = []
    for r in recs:
        per_ob = {}
        for v in r['violations']:
            per_ob.setdefault(v['obligation'], []).append(v)
        for ob, vs in per_ob.items():
            for v in vs[:3]:
                jobs.append(dict(kind='violation', unit=r['id'], obligation=ob, values=v['values'],
                                 patched=r['patched'], info=v.get('info')))
    known_jobs = []
    seen_kf = set()
    for r in recs:
        for k in r['known']:
            key = (k['finding'], r['id'])
            if key in seen_kf:
                continue
            seen_kf.add(key)
            known_jobs.append(dict(kind='known', unit=r['id'], obligation=k['obligation'], values=k['values'],
                                   finding=k['finding'], patched=r['patched'], info=k.get('info')))
    # limit known replays: at most 2 units per finding
    cnt = {}
    kj = []
    for j in known_jobs:
        cnt[j['finding']] = cnt.get(j['finding'], 0) + 1
        if cnt[j['finding']] <= 2:
            kj.append(j)
    trace_jobs = []
    max_tr = 12 if tier == 'quick' else 60
    for r in recs:
        for tr in r['traces'][:1 if tier == 'quick' else 3]:
            if len(trace_jobs) < max_tr:
                trace_jobs.append(dict(kind='trace', unit=r['id'], values=tr['values'], observed=tr['observed'],
                                       patched=bool(r.get('patched'))))

    results = []
    need_jit = bool(jobs) or tier == 'thorough' or os.environ.get('VF_REPLAY_JIT') == '1'
    # validation traces of PATCHED units (shrunk loop constants, stubs) are compared with the pure-Python float run of the same
    # source, where the same patches apply; the compiled build has the real constants frozen in and cannot follow them
    if need_jit:
        py_traces = [j for j in trace_jobs if j.get('patched')]
        trace_jobs = [j for j in trace_jobs if not j.get('patched')]
    else:
        py_traces = []
    all_jobs = jobs + kj + trace_jobs
    if all_jobs:
        results = replay_batch(modname, tier, all_jobs, jit=need_jit, seed=seed)
    if py_traces:
        results = list(results) + list(replay_batch(modname, tier, py_traces, jit=False, seed=seed))
        all_jobs = all_jobs + py_traces

    confirmed, unconfirmed, known_printed, traces_ok, traces_bad = [], [], {}, 0, []
    os.makedirs(os.path.join(VERIF, 'replays'), exist_ok=True)
    for j, res in zip(all_jobs, results):
        if j['kind'] == 'trace':
            if res.get('ok'):
                traces_ok += 1
            elif res.get('skipped'):
                pass
            else:
                traces_bad.append(dict(unit=j['unit'], detail=res.get('detail')))
        elif j['kind'] == 'violation':
            if res.get('known_pred') not in known:
                res['known_pred'] = None
            if res.get('reproduced') and not res.get('known_pred'):
                h = hashlib.sha256(json.dumps([j['obligation'], res['values']], sort_keys=True).encode()).hexdigest()[:10]
                path = os.path.join(VERIF, 'replays', '%s-%s.json' % (prop, h))
                json.dump(dict(property=prop, module=modname, tier=tier, unit=j['unit'], obligation=j['obligation'],
                               values=res['values'], how=res.get('how'), detail=res.get('detail'), unpatched=res.get('unpatched', False),
                               info=j.get('info')), open(path, 'w'), indent=1)
                confirmed.append(dict(obligation=j['obligation'], replay=path, how=res.get('how'),
                                      detail=res.get('detail')))
            elif res.get('reproduced') and res.get('known_pred'):
                known_printed.setdefault(res['known_pred'], dict(obligation=j['obligation'], detail=res.get('detail')))
            else:
                unconfirmed.append(dict(obligation=j['obligation'], values=j['values'], detail=res.get('detail'),
                                        info=j.get('info')))
        else:
            if res.get('reproduced'):
                known_printed.setdefault(j['finding'], dict(obligation=j['obligation'], detail=res.get('detail')))

    # ---- verdict ---------------------------------------------------------------------------
    tot = dict(paths=0, transitions=0, obligations=0, discharged=0, nontrivial=0, queries=0, sat=0, unsat=0,
               unknown=0, solver_s=0.0, max_query_s=0.0)
    functions = {}
    inconclusive = []
    vacuous = []
    samples = []
    for r in recs:
        tot['paths'] += r['paths']
        tot['transitions'] += r['transitions']
        tot['obligations'] += r['obligations']
        tot['discharged'] += r['discharged']
        tot['nontrivial'] += r['nontrivial_paths']
        s = r.get('solver') or {}
        for k in ('queries', 'sat', 'unsat', 'unknown'):
            tot[k] += s.get(k, 0)
        tot['solver_s'] += s.get('solver_s', 0.0)
        tot['max_query_s'] = max(tot['max_query_s'], s.get('max_query_s', 0.0))
        functions.update(r['functions'])
        for inc in r['inconclusive']:
            inconclusive.append(dict(unit=r['id'], **inc))
        # vacuous = every path's final feasibility query came back UNSAT; undecided (unknown / budget) paths are
        # reported as inconclusive instead
        if r['reach_ok'] == 0 and not r['inconclusive']:
            vacuous.append(r['id'])
        if r['samples'] and len(samples) < 6:
            samples.append(r['samples'][0])
    # distinct obligations violated (de-dup across paths)
    viol_obs = sorted({c['obligation'] for c in confirmed})
    seen = set()
    for c in confirmed:
        if c['obligation'] in seen:
            continue
        seen.add(c['obligation'])
        print("VIOLATION property=%s replay=%s obligation=%s" % (prop, c['replay'], c['obligation']))
    for fid in sorted(known_printed):
        e = known.get(fid, {})
        print("KNOWN-FINDING: property=%s %s %s [%s]" % (prop, fid, e.get('what', ''), known_printed[fid]['obligation']))
    hard_inc = [i for i in inconclusive if i['kind'] in ('crash', 'engine')]
    soft_inc = [i for i in inconclusive if i['kind'] in ('unknown', 'budget')]
    for u in unconfirmed[:10]:
        print("UNCONFIRMED-COUNTEREXAMPLE obligation=%s detail=%s" % (u['obligation'], str(u.get('detail'))[:300]))
    for i in hard_inc[:10]:
        print("HARNESS-ERROR unit=%s %s" % (i['unit'], str(i.get('msg'))[:300]))
        if a.verbose and i.get('tb'):
            print(i['tb'])
    for v in vacuous[:10]:
        print("VACUOUS unit=%s (no feasible path reached the end)" % v)
    for b in traces_bad[:10]:
        print("TRACE-MISMATCH unit=%s %s" % (b['unit'], str(b['detail'])[:300]))
    if soft_inc:
        print("INCONCLUSIVE: %d obligations/paths undecided (solver unknown or budget); not counted as discharged"
              % len(soft_inc))
        if a.verbose:
            for i in soft_inc[:20]:
                print("   ", i)
    wall = time.time() - t0
    if viol_obs:
        code = 1
    elif unconfirmed or hard_inc or vacuous or traces_bad:
        code = 3
    else:
        code = 0
    print("%s tier=%s units=%d paths=%d obligations=%d discharged=%d queries=%d (unsat %d / sat %d / unknown %d) "
          "solver=%.1fs traces_validated=%d known=%d wall=%.1fs (sym %.1fs) exit=%d" % (
              prop, tier, len(units), tot['paths'], tot['obligations'], tot['discharged'], tot['queries'],
              tot['unsat'], tot['sat'], tot['unknown'], tot['solver_s'], traces_ok, len(known_printed), wall,
              t_sym, code))

    if not a.no_evidence and not a.only:
        import z3
        bounds = getattr(mod, 'BOUNDS', {})
        ev = dict(
            property_id=prop, tier=tier, seed=seed, level='model_checking',
            coverage=dict(
                states=max(tot['paths'], 0), transitions=max(tot['transitions'], 0),
                traces_validated_against_impl=traces_ok,
                samples=samples or [dict(note='no obligation sampled')],
                obligations=tot['obligations'], discharged=tot['discharged'],
                evaluations=tot['paths'], distinct_nontrivial=tot['nontrivial'],
                rule=("one evaluation = one feasible control path of the real skglm code executed symbolically "
                      "(explored depth-first by re-execution; infeasible sides pruned by z3); non-trivial = the path "
                      "took at least one data-dependent branch decided by the solver"),
                units=len(units),
                unit_ids=[u.id for u in units][:400],
                functions_encoded=functions,
                bounds=bounds.get(tier, bounds) if isinstance(bounds, dict) else bounds,
                solver=dict(engine='z3 %s (fresh qfnra-nlsat tactic per query, then default solver)' % z3.get_version_string(),
                            queries=tot['queries'], unsat=tot['unsat'], sat=tot['sat'], unknown=tot['unknown'],
                            solver_s=round(tot['solver_s'], 2), max_query_s=round(tot['max_query_s'], 2)),
                undecided=len(soft_inc),
                known_findings_matched=sorted(known_printed),
                replay_mode=('jit (numba-compiled build)' if need_jit else 'pure-python floats on the same source'),
                exhaustive=False,
                explanation=getattr(mod, 'EXPLANATION', ''),
            ),
            assumptions=list(getattr(mod, 'ASSUMPTIONS', [])),
            wall_s=round(wall, 2),
            violations=len(viol_obs),
        )
        if ev['coverage']['states'] < 1:
            ev['coverage']['states'] = 1
        if ev['coverage']['transitions'] < 1:
            ev['coverage']['transitions'] = 1
        # VF_EVIDENCE_DIR: keep a thorough run's report next to (not instead of) the quick tier's evidence file
        evdir = os.path.join(VERIF, os.environ.get('VF_EVIDENCE_DIR', 'evidence'))
        os.makedirs(evdir, exist_ok=True)
        json.dump(ev, open(os.path.join(evdir, '%s.json' % prop), 'w'), indent=1)
    return code


def do_replay_file(prop, modname, tier, path, seed):
    d = json.load(open(path))
    job = dict(kind='violation', unit=d['unit'], obligation=d['obligation'], values=d['values'],
               patched=False, exact=True, unpatched=d.get('unpatched', False))
    res = replay_batch(d.get('module', modname), d.get('tier', tier), [job], jit=True, seed=seed)[0]
    print(json.dumps(res, indent=1))
    if res.get('reproduced'):
        print("VIOLATION property=%s replay=%s obligation=%s" % (prop, path, d['obligation']))
        return 1
    print("not reproduced")
    return 0


if __name__ == '__main__':
    sys.exit(main())
