"""Symbolic scalar domain + path explorer + query discharge (the 'symx' core).

Values flowing through skglm's own Python code (numba disabled) are SymReal objects wrapping z3 Real
terms.  ``bool(SymBool)`` is the only place where control flow meets symbols: it asks the current
context (Ctx) for a decision, which forks the exploration.
"""
import math
import numbers
import time
from fractions import Fraction

import numpy as _np
import z3

QUERY_TIMEOUT_MS = 20000


class Infeasible(Exception):
    """Raised to abandon a path whose path condition became unsatisfiable."""


class PathBudget(Exception):
    pass


def _to_frac(x):
    return Fraction(x)


def R(x):
    """Convert a python / numpy number or SymReal to a z3 Real term (exact)."""
    if isinstance(x, SymReal):
        return x.t
    if isinstance(x, (bool, _np.bool_)):
        return z3.RealVal(int(x))
    if isinstance(x, (int, _np.integer)):
        return z3.RealVal(int(x))
    if isinstance(x, Fraction):
        return z3.RealVal(str(x))
    if isinstance(x, (float, _np.floating)):
        x = float(x)
        if math.isinf(x) or math.isnan(x):
            raise NonFinite(x)
        alg = _ALGEBRAIC.get(x)
        if alg is not None:
            return Ctx.cur.algebraic_const(*alg)
        return z3.RealVal(str(deround(x)))
    if isinstance(x, _np.ndarray) and x.ndim == 0:
        return R(x.item())
    if isinstance(x, SymBool):
        return z3.If(x.t, z3.RealVal(1), z3.RealVal(0))
    raise TypeError("cannot convert %r to a real term" % (type(x),))


def deround(x):
    """Idealised-real reading of a float: the double nearest to a simple rational (denominator <= 1000,
    e.g. the literals 0.3, 2./3., 1/n) denotes that rational; any other float denotes itself exactly."""
    f = Fraction(x)
    if f.denominator <= 1000:
        return f
    g = f.limit_denominator(1000)
    if float(g) == x:
        return g
    return f


# float constants that are rounded algebraic numbers in skglm's source: name, (degree, radicand), factor
_ALGEBRAIC = {
    3. ** (3. / 2.): ("sqrt27", 2, 27, Fraction(1)),
    3. ** (3. / 2.) / 4.: ("sqrt27", 2, 27, Fraction(1, 4)),
}


class NonFinite(ArithmeticError):
    """An inf/nan constant reached an arithmetic operation with a symbolic value."""


def B(x):
    if isinstance(x, SymBool):
        return x.t
    return z3.BoolVal(bool(x))


def _isinf(o):
    return isinstance(o, (float, _np.floating)) and math.isinf(o)


def _isnd(o):
    return isinstance(o, _np.ndarray) and o.ndim > 0


class SymBool:
    __slots__ = ("t",)

    def __init__(self, t):
        self.t = t

    def __bool__(self):
        return Ctx.cur.branch(self.t)

    def __and__(self, o):
        if _isnd(o):
            return NotImplemented
        return SymBool(z3.And(self.t, B(o)))

    def __or__(self, o):
        if _isnd(o):
            return NotImplemented
        return SymBool(z3.Or(self.t, B(o)))

    __rand__ = __and__
    __ror__ = __or__

    def __invert__(self):
        return SymBool(z3.Not(self.t))

    def __eq__(self, o):
        return SymBool(self.t == B(o))

    def __ne__(self, o):
        return SymBool(self.t != B(o))

    __hash__ = None

    def __repr__(self):
        return "SymBool(%s)" % z3.simplify(self.t)

    # arithmetic on booleans (e.g. sum of masks, fit_intercept * x)
    def _r(self):
        return SymReal(z3.If(self.t, z3.RealVal(1), z3.RealVal(0)))

    def __add__(self, o):
        return self._r() + o

    __radd__ = __add__

    def __mul__(self, o):
        return self._r() * o

    __rmul__ = __mul__


def _quot(n, d):
    """n / d with d known non-zero on this path."""
    ds = z3.simplify(d)
    if z3.is_rational_value(ds):
        return SymReal(n / ds)
    ns = z3.simplify(n)
    if z3.is_rational_value(ns) and ns.numerator_as_long() == 0:
        return SymReal(z3.RealVal(0))
    c = Ctx.cur
    q = c.fresh("q")
    c.assume_def(q * ds == n, q, lambda ev: _safe_div(ev(n), ev(ds)))
    return SymReal(q)


def _safe_div(a, b):
    if a is None or b is None or b == 0:
        return None
    return a / b


def _num_ite(t, depth=0):
    """True if t is a (nested) ite whose leaves are all numerals (e.g. the sign function)."""
    if z3.is_rational_value(t):
        return depth > 0
    if z3.is_app_of(t, z3.Z3_OP_ITE) and depth < 4:
        return _num_ite(t.arg(1), depth + 1) and _num_ite(t.arg(2), depth + 1)
    return False


def _distribute(ite, other):
    """(nested numeral ite) * other  ->  ite with the product pushed to the leaves (keeps formulas linear)."""
    if z3.is_rational_value(ite):
        if ite.numerator_as_long() == 0:
            return z3.RealVal(0)
        return ite * other
    return z3.If(ite.arg(0), _distribute(ite.arg(1), other), _distribute(ite.arg(2), other))


def _mul_terms(a, b):
    if _num_ite(a) and not z3.is_rational_value(b):
        return _distribute(a, b)
    if _num_ite(b) and not z3.is_rational_value(a):
        return _distribute(b, a)
    return a * b


def _aq_shift(aq, c_delta, flip=False):
    """affine-quotient metadata (c, k, u, t) denotes  c + k * u / |t|;  returns the metadata of  (+-)(value) + c_delta"""
    c, k, u, t = aq
    if flip:
        return (c_delta - c, -k, u, t)
    return (c + c_delta, k, u, t)


def _aq_cancel(a, b):
    """(c + k*u/|x|) * x  ==  c*x + k*u*sign(x)   (x != 0 is implied: the division by |x| was checked).  Exact rewrite that
    keeps  BST(x, u) = (1 - u/||x||) x  on one-element blocks piecewise linear."""
    for p, q in ((a, b), (b, a)):
        if isinstance(p, SymReal) and p.aq is not None and isinstance(q, SymReal):
            c, k, u, x = p.aq
            if x.eq(q.t):
                sgn = z3.If(x > 0, z3.RealVal(1), z3.RealVal(-1))
                ku = u if k == 1 else (-u if k == -1 else z3.RealVal(k) * u)
                return SymReal(_mul_terms(c, x) + _mul_terms(sgn, ku))
    return None


class SymReal:
    __slots__ = ("t", "sq", "ab", "aq", "fac")

    def __init__(self, t, sq=None, ab=None, aq=None, fac=None):
        self.fac = fac        # (a, b) when this value is the product a*b of two symbolic terms
        self.t = t
        self.sq = sq          # exact square, when this value was produced by sqrt()
        self.ab = ab          # x, when this value is |x|
        self.aq = aq          # (c, k, u, x) when this value is  c + k*u/|x|  (block soft-thresholding scale factor)

    def __format__(self, f):
        return "<sym>"

    def __repr__(self):
        return "S(%s)" % z3.simplify(self.t)

    # -- arithmetic
    def __add__(s, o):
        if _isnd(o) or isinstance(o, Lifted):
            return NotImplemented
        if _isinf(o):
            return o
        if s.aq is not None and not isinstance(o, SymReal):
            return _LazyAQ(_aq_shift(s.aq, R(o)))
        return SymReal(s.t + R(o))

    def __radd__(s, o):
        if _isnd(o) or isinstance(o, Lifted):
            return NotImplemented
        if _isinf(o):
            return o
        if s.aq is not None and not isinstance(o, SymReal):
            return _LazyAQ(_aq_shift(s.aq, R(o)))
        return SymReal(R(o) + s.t)

    def __sub__(s, o):
        if _isnd(o) or isinstance(o, Lifted):
            return NotImplemented
        if _isinf(o):
            return -o
        if s.aq is not None and not isinstance(o, SymReal):
            return _LazyAQ(_aq_shift(s.aq, -R(o)))
        return SymReal(s.t - R(o))

    def __rsub__(s, o):
        if _isnd(o) or isinstance(o, Lifted):
            return NotImplemented
        if _isinf(o):
            return o
        if s.aq is not None and not isinstance(o, SymReal):
            return _LazyAQ(_aq_shift(s.aq, R(o), flip=True))
        return SymReal(R(o) - s.t)

    def __mul__(s, o):
        if _isnd(o) or isinstance(o, Lifted):
            return NotImplemented
        if _isinf(o):
            raise NonFinite("inf * symbolic")
        if o is s and s.sq is not None:
            return s.sq
        r = _aq_cancel(s, o)
        if r is not None:
            return r
        return SymReal(_mul_terms(s.t, R(o)), fac=(s.t, o.t) if isinstance(o, SymReal) else None)

    def __rmul__(s, o):
        if _isnd(o) or isinstance(o, Lifted):
            return NotImplemented
        if _isinf(o):
            raise NonFinite("inf * symbolic")
        return SymReal(_mul_terms(R(o), s.t))

    def __truediv__(s, o):
        if _isnd(o) or isinstance(o, Lifted):
            return NotImplemented
        if _isinf(o):
            return 0.0
        d = R(o)
        if SymBool(d == 0):
            raise ZeroDivisionError("division by zero (symbolic divisor can be 0)")
        if isinstance(o, SymReal) and o.ab is not None and s.fac is not None:
            # (m * x) / |x|  ==  m * sign(x)     (x != 0 was just checked)
            for m, x in (s.fac, s.fac[::-1]):
                if x.eq(o.ab):
                    return SymReal(_mul_terms(z3.If(x > 0, z3.RealVal(1), z3.RealVal(-1)), m))
        if isinstance(o, SymReal) and o.ab is not None:
            return _LazyAQ((z3.RealVal(0), 1, s.t, o.ab))
        return _quot(s.t, d)

    def __rtruediv__(s, o):
        if _isnd(o) or isinstance(o, Lifted):
            return NotImplemented
        if SymBool(s.t == 0):
            raise ZeroDivisionError("division by zero (symbolic divisor can be 0)")
        if _isinf(o):
            raise NonFinite("inf / symbolic")
        if s.ab is not None:
            return _LazyAQ((z3.RealVal(0), 1, R(o), s.ab))
        return _quot(R(o), s.t)

    def __neg__(s):
        return SymReal(-s.t)

    def __pos__(s):
        return s

    def __abs__(s):
        return SymReal(z3.If(s.t >= 0, s.t, -s.t), ab=s.t)

    def __pow__(s, o):
        if isinstance(o, SymReal):
            v = z3.simplify(o.t)
            if z3.is_rational_value(v):
                o = Fraction(v.numerator_as_long(), v.denominator_as_long())
            else:
                raise NotImplementedError("symbolic exponent")
        if isinstance(o, (int, _np.integer)) or (isinstance(o, (float, Fraction)) and float(o).is_integer()):
            k = int(o)
            if k == 2 and s.sq is not None:
                return s.sq
            if k >= 0:
                r = z3.RealVal(1)
                for _ in range(k):
                    r = r * s.t
                return SymReal(r)
            return 1 / (s ** (-k))
        fo = Fraction(o).limit_denominator(1000) if not isinstance(o, Fraction) else o
        if abs(float(fo) - float(o)) > 1e-15:
            raise NotImplementedError("power %r" % (o,))
        return s.root_pow(fo.numerator, fo.denominator)

    def __rpow__(s, o):
        raise NotImplementedError("constant ** symbolic")

    def root_pow(s, num, den):
        """s ** (num/den) for s >= 0 (forks a ValueError path if s < 0 is feasible)."""
        if SymBool(s.t < 0):
            raise ValueError("fractional power of a negative number (nan)")
        if num < 0:
            return 1 / s.root_pow(-num, den)
        c = Ctx.cur
        ckey = (z3.simplify(s.t, som=True).sexpr(), num, den)
        if ckey in c._roots:
            return c._roots[ckey]
        v = c.fresh("rt")
        vp = z3.RealVal(1)
        for _ in range(den):
            vp = vp * v
        c.assume_def(z3.And(v >= 0, vp == s.t), v, None)
        r = z3.RealVal(1)
        for _ in range(num):
            r = r * v
        out = SymReal(r, sq=(s if (num == 1 and den == 2) else None))
        c._roots[ckey] = out
        return out

    def sqrt(s):
        if SymBool(s.t < 0):
            raise ValueError("fractional power of a negative number (nan)")
        return _LazySqrt(s)

    def exp(s):
        return Ctx.cur.uf_exp(s)

    def log(s):
        return Ctx.cur.uf_log(s)

    # -- comparisons
    def _cmp(s, o, op):
        if _isnd(o) or isinstance(o, Lifted):
            return NotImplemented
        if _isinf(o):
            pos = o > 0
            return {"lt": pos, "le": pos, "gt": not pos, "ge": not pos, "eq": False, "ne": True}[op]
        if isinstance(o, (float, _np.floating)) and math.isnan(o):
            return op == "ne"
        r = R(o)
        t = {"lt": s.t < r, "le": s.t <= r, "gt": s.t > r, "ge": s.t >= r, "eq": s.t == r,
             "ne": s.t != r}[op]
        return SymBool(t)

    def __lt__(s, o):
        return s._cmp(o, "lt")

    def __le__(s, o):
        return s._cmp(o, "le")

    def __gt__(s, o):
        return s._cmp(o, "gt")

    def __ge__(s, o):
        return s._cmp(o, "ge")

    def __eq__(s, o):
        return s._cmp(o, "eq")

    def __ne__(s, o):
        return s._cmp(o, "ne")

    __hash__ = None

    def __float__(s):
        v = z3.simplify(s.t)
        if z3.is_rational_value(v):
            return float(Fraction(v.numerator_as_long(), v.denominator_as_long()))
        raise TypeError("realisation of a symbolic value")

    def __int__(s):
        return int(float(s))

    def __index__(s):
        raise TypeError("symbolic value used as index")

    def conjugate(s):
        return s

    def item(s):
        return s

    @property
    def real(s):
        return s

    @property
    def ndim(s):
        return 0

    @property
    def shape(s):
        return ()

    @property
    def dtype(s):
        return _np.dtype(object)

    def copy(s):
        return s


class _LazySqrt(SymReal):
    """sqrt(rad) whose root variable (and its non-linear defining constraint  rt >= 0, rt*rt == rad) is only introduced
    when the VALUE is needed;  sqrt(rad)**2  and  r*r  return rad itself and never create it (norm(v)**2 stays polynomial)."""
    __slots__ = ("_rad", "_forced")

    def __init__(self, rad):
        self._rad = rad
        self._forced = None
        self.sq = rad
        self.ab = None
        self.aq = None
        self.fac = None

    @property
    def t(self):
        if self._forced is None:
            self._forced = self._rad.root_pow(1, 2).t
        return self._forced


class _LazyAQ(SymReal):
    """c + k*u/|x| (k = +-1) whose quotient variable is only introduced when the value is needed; multiplying by x cancels it
    exactly (see _aq_cancel), adding / subtracting constants shifts c."""
    __slots__ = ("_forced",)

    def __init__(self, aq):
        self.aq = aq
        self._forced = None
        self.sq = None
        self.ab = None
        self.fac = None

    @property
    def t(self):
        if self._forced is None:
            c, k, u, x = self.aq
            q = _quot(u, z3.If(x >= 0, x, -x)).t
            self._forced = c + (q if k == 1 else -q)
        return self._forced


class Lifted:
    """Marker base for number-like wrappers that take precedence over SymReal (Dual)."""


numbers.Real.register(SymReal)


def sym(x):
    return x if isinstance(x, SymReal) else SymReal(R(x))


def is_symbolic(x):
    return isinstance(x, (SymReal, SymBool, Lifted))


# ----------------------------------------------------------------------------------------------
# Solver portfolio
# ----------------------------------------------------------------------------------------------
class Stats:
    def __init__(self):
        self.queries = 0
        self.sat = 0
        self.unsat = 0
        self.unknown = 0
        self.solver_s = 0.0
        self.max_query_s = 0.0

    def add(self, o):
        self.queries += o.queries
        self.sat += o.sat
        self.unsat += o.unsat
        self.unknown += o.unknown
        self.solver_s += o.solver_s
        self.max_query_s = max(self.max_query_s, o.max_query_s)

    def as_dict(self):
        return dict(queries=self.queries, sat=self.sat, unsat=self.unsat, unknown=self.unknown,
                    solver_s=round(self.solver_s, 3), max_query_s=round(self.max_query_s, 3))


GLOBAL_STATS = Stats()
_PROBE_LRA = z3.Probe('is-qflra')


def _has_nonlinear_hint(assertions):
    return True


def solve(assertions, timeout_ms=None, stats=None, want_model=True):
    """Decide satisfiability of the conjunction with a portfolio of *fresh* solvers.

    Returns ('sat', model) | ('unsat', None) | ('unknown', None).
    """
    timeout_ms = timeout_ms or QUERY_TIMEOUT_MS
    t0 = time.time()
    res, model = "unknown", None
    def mk_nl():
        return z3.Tactic("qfnra-nlsat").solver()

    def mk_df():
        return z3.Solver()
    # escalating portfolio: nlsat is instant on most NRA queries but can stall on large ite-heavy
    # *linear* ones where the default solver (simplex) answers at once -- and vice versa.
    linear = False
    assertions = [z3.simplify(a) for a in assertions]
    try:
        g = z3.Goal()
        for a in assertions:
            g.add(a)
        linear = _PROBE_LRA(g) > 0.5
    except z3.Z3Exception:
        pass
    if linear:
        plan = [(mk_df, timeout_ms)]
    else:
        plan = [(mk_nl, min(1500, timeout_ms)), (mk_df, min(4000, timeout_ms))]
        if timeout_ms > 1500:
            plan.append((mk_nl, timeout_ms))
        if timeout_ms > 4000:
            plan.append((mk_df, timeout_ms))
    for mk, to in plan:
        s = mk()
        s.set("timeout", int(to))
        for a in assertions:
            s.add(a)
        try:
            r = s.check()
        except z3.Z3Exception:
            r = z3.unknown
        if r == z3.sat:
            res, model = "sat", (s.model() if want_model else None)
            break
        if r == z3.unsat:
            res = "unsat"
            break
    dt = time.time() - t0
    for st in (stats, GLOBAL_STATS):
        if st is not None:
            st.queries += 1
            st.solver_s += dt
            st.max_query_s = max(st.max_query_s, dt)
            setattr(st, res, getattr(st, res) + 1)
    return res, model


def model_value(model, term):
    """Evaluate a real/bool term under a model -> Fraction / bool / None (if not rational)."""
    v = model.eval(term, model_completion=True)
    if z3.is_true(v):
        return True
    if z3.is_false(v):
        return False
    if z3.is_rational_value(v):
        return Fraction(v.numerator_as_long(), v.denominator_as_long())
    if z3.is_algebraic_value(v):
        a = v.approx(30)
        return Fraction(a.numerator_as_long(), a.denominator_as_long())
    return None


# ----------------------------------------------------------------------------------------------
# Execution context / path explorer
# ----------------------------------------------------------------------------------------------
class Ctx:
    cur = None

    def __init__(self, decisions=(), model=None, timeout_ms=None, branch_timeout_ms=None):
        self.decisions = list(decisions)   # [(value, two_sided)]
        self.pos = 0
        self.pc = []
        self.assumed = 0                   # number of leading pc entries that are harness assumptions
        self.model = model                 # z3 model of pc valid *after* the replayed prefix
        self._pending_model = model
        if self.decisions:
            self.model = None
        self.alts = []                     # [(index, model_for_other_side)]
        self.stats = Stats()
        self.timeout_ms = timeout_ms or QUERY_TIMEOUT_MS
        self.branch_timeout_ms = branch_timeout_ms or min(self.timeout_ms, 10000)
        self.exp_atoms = {}
        self.log_atoms = {}
        self.tainted = False               # an 'unknown' was met at a branch
        self.events = {}
        self.n_branches = 0
        self.names = {}
        self._nfresh = 0
        self._alg = {}
        self._roots = {}

    def algebraic_const(self, name, degree, radicand, factor):
        if name not in self._alg:
            v = z3.Real("const_" + name)
            p = v
            for _ in range(degree - 1):
                p = p * v
            self.pc.append(z3.And(v > 0, p == radicand))
            self._alg[name] = v
            self.model = None
        return self._alg[name] * z3.RealVal(str(factor))

    def fresh(self, prefix):
        """Fresh real variable with a name that is stable across re-executions of the same path."""
        self._nfresh += 1
        return z3.Real("%s#%d" % (prefix, self._nfresh))

    # ---- assumptions
    def assume(self, *conds):
        for c in conds:
            t = B(c) if not z3.is_expr(c) else c
            t = z3.simplify(t)
            if z3.is_true(t):
                continue
            self.pc.append(t)
            if self.model is not None:
                v = self.model.eval(t, model_completion=True)
                if not z3.is_true(v):
                    self.model = None

    def assume_def(self, cond, var, evalfn):
        """Add a defining constraint for a fresh variable; try to keep the cached model alive."""
        self.pc.append(cond)
        if self.model is None:
            return
        if evalfn is None:
            self.model = None
            return
        try:
            val = evalfn(lambda term: model_value(self.model, term))
            if val is None:
                self.model = None
                return
            self.model.update_value(var, z3.RealVal(str(Fraction(val))))
            v = self.model.eval(cond, model_completion=True)
            if not z3.is_true(v):
                self.model = None
        except Exception:
            self.model = None

    # ---- queries
    def check(self, *extra, timeout_ms=None):
        return solve(list(self.pc) + [e for e in extra], timeout_ms or self.timeout_ms, self.stats)

    def branch(self, cond):
        cond = z3.simplify(cond)
        if z3.is_true(cond):
            return True
        if z3.is_false(cond):
            return False
        self.n_branches += 1
        if self.pos < len(self.decisions):
            d, _two = self.decisions[self.pos]
            self.pos += 1
            self.pc.append(cond if d else z3.Not(cond))
            if self.pos == len(self.decisions):
                self.model = self._pending_model
                if self.model is not None:
                    # sanity: the saved model must satisfy what we have so far (fresh vars may differ)
                    for c in self.pc:
                        if not z3.is_true(self.model.eval(c, model_completion=True)):
                            self.model = None
                            break
            return d
        # fresh decision
        v = None
        if self.model is not None:
            mv = self.model.eval(cond, model_completion=True)
            if z3.is_true(mv):
                v = True
            elif z3.is_false(mv):
                v = False
        if v is None:
            r, m = self.check(cond, timeout_ms=self.branch_timeout_ms)
            if r == "sat":
                v, self.model = True, m
            elif r == "unsat":
                # other side must be feasible if pc is; take it as forced
                self.decisions.append((False, False))
                self.pos += 1
                self.pc.append(z3.Not(cond))
                return False
            else:
                self.tainted = True
                self.model = None
                # explore both sides without a model
                self.decisions.append((True, True))
                self.pos += 1
                self.alts.append((len(self.decisions) - 1, None))
                self.pc.append(cond)
                return True
        other = z3.Not(cond) if v else cond
        r, m = self.check(other, timeout_ms=self.branch_timeout_ms)
        if r == "unsat":
            self.decisions.append((v, False))
        else:
            if r == "unknown":
                self.tainted = True
                m = None
            self.decisions.append((v, True))
            self.alts.append((len(self.decisions) - 1, m))
        self.pos += 1
        self.pc.append(cond if v else z3.Not(cond))
        return v

    # ---- uninterpreted exp / log (Ackermannised on the fly; only true facts are asserted)
    def _key(self, t):
        return z3.simplify(t, som=True).sexpr()

    def uf_exp(self, x):
        x = sym(x)
        xs = z3.simplify(x.t)
        if z3.is_rational_value(xs) and xs.numerator_as_long() == 0:
            return SymReal(z3.RealVal(1))
        key = self._key(xs)
        if key in self.exp_atoms:
            return SymReal(self.exp_atoms[key][0])
        v = self.fresh("E")
        cons = [v > 0]
        for k2, (v2, a2) in self.exp_atoms.items():
            # functional consistency, reciprocal pairs, monotonicity
            cons.append(z3.Implies(a2 == xs, v2 == v))
            cons.append(z3.Implies(a2 == -xs, v2 * v == 1))
            cons.append(z3.Implies(a2 < xs, v2 < v))
            cons.append(z3.Implies(a2 > xs, v2 > v))
        cons.append(z3.Implies(xs == 0, v == 1))
        cons.append(z3.Implies(xs > 0, v > 1 + xs))
        cons.append(z3.Implies(xs < 0, z3.And(v < 1, v > 1 + xs)))
        for k2, (l2, a2) in self.log_atoms.items():
            cons.append(z3.Implies(l2 == xs, v == a2))   # exp(log a) = a
        self.exp_atoms[key] = (v, xs)
        for c in cons:
            self.pc.append(c)
        self.model = None
        return SymReal(v)

    def uf_log(self, x):
        x = sym(x)
        if SymBool(x.t <= 0):
            raise ValueError("log of a non-positive number")
        xs = z3.simplify(x.t)
        if z3.is_rational_value(xs) and xs.numerator_as_long() == xs.denominator_as_long():
            return SymReal(z3.RealVal(0))
        key = self._key(xs)
        if key in self.log_atoms:
            return SymReal(self.log_atoms[key][0])
        v = self.fresh("L")
        cons = []
        for k2, (v2, a2) in self.log_atoms.items():
            cons.append(z3.Implies(a2 == xs, v2 == v))
            cons.append(z3.Implies(a2 < xs, v2 < v))
            cons.append(z3.Implies(a2 > xs, v2 > v))
            cons.append(z3.Implies(a2 * xs == 1, v2 == -v))
        cons.append(z3.Implies(xs == 1, v == 0))
        cons.append(z3.Implies(xs != 1, v < xs - 1))           # log x <= x - 1
        cons.append(z3.Implies(xs != 1, v * xs > xs - 1))       # log x >= 1 - 1/x
        for k2, (e2, a2) in self.exp_atoms.items():
            cons.append(z3.Implies(e2 == xs, v == a2))           # log(exp a) = a
        self.log_atoms[key] = (v, xs)
        for c in cons:
            self.pc.append(c)
        self.model = None
        return SymReal(v)

    def event(self, name, value=True):
        self.events[name] = value


class PathResult:
    def __init__(self, ctx, outcome, payload=None):
        self.ctx = ctx
        self.outcome = outcome     # 'done' | 'exception'
        self.payload = payload


def explore(fn, max_paths=20000, wall_s=None, timeout_ms=None, branch_timeout_ms=None,
            on_path=None):
    """Depth-first exploration of fn(ctx) by re-execution.

    fn is called once per feasible path with a fresh Ctx whose decision trail prefix is replayed.
    Returns dict(paths=[...], complete=bool, stats=Stats).
    """
    t0 = time.time()
    stack = [([], None)]
    n = 0
    complete = True
    tot = Stats()
    transitions = 0
    while stack:
        if n >= max_paths or (wall_s is not None and time.time() - t0 > wall_s):
            complete = False
            break
        dec, model = stack.pop()
        c = Ctx(dec, model, timeout_ms, branch_timeout_ms)
        Ctx.cur = c
        n0 = len(dec)
        try:
            fn(c)
        except Infeasible:
            pass
        finally:
            Ctx.cur = None
        for idx, m in c.alts:
            if idx >= n0:
                v = c.decisions[idx][0]
                stack.append((c.decisions[:idx] + [(not v, False)], m))
        tot.add(c.stats)
        transitions += c.n_branches
        n += 1
        if on_path is not None:
            on_path(c)
    return dict(n_paths=n, complete=complete, stats=tot, transitions=transitions,
                wall_s=time.time() - t0)
