"""Harness layer: units, the handle ``h`` passed to unit bodies (symbolic and concrete modes),
obligation discharge with known-finding splitting, and per-unit result records."""
import hashlib
import inspect
import math
import os
import random
import re
import sys
import time
import traceback
from fractions import Fraction

import numpy as _np

REPO = os.environ.get('VF_REPO', '/repo')


class Unit:
    def __init__(self, uid, fn, kwargs=None, max_paths=4000, wall_s=120, timeout_ms=20000,
                 patched=False, tags=()):
        self.id = uid
        self.fn = fn
        self.kwargs = kwargs or {}
        self.max_paths = max_paths
        self.wall_s = wall_s
        self.timeout_ms = timeout_ms
        self.patched = patched      # uses patched constants / stubs -> needs unpatched confirmation
        self.tags = tuple(tags)

    def __repr__(self):
        return "Unit(%s)" % self.id


class AssumptionFailed(Exception):
    pass


class Inconclusive(Exception):
    """Engine limitation reached on this path (not a verdict about the code)."""


ENGINE_EXC = (NotImplementedError, Inconclusive)


# ----------------------------------------------------------------------------------------------
# concrete-mode conditions with tolerance
class FCond:
    __slots__ = ("strict", "loose")

    def __init__(self, strict, loose=None):
        self.strict = bool(strict)
        self.loose = self.strict if loose is None else bool(loose)

    def __bool__(self):
        return self.strict


def _scale(a, b):
    return abs(a) + abs(b) + 1.0


FTOL = 1e-7


class HBase:
    """API shared by the symbolic and the concrete handle."""
    mode = None

    def __init__(self, unit):
        self.unit = unit
        self.obligations = []     # dicts
        self.observed = []        # (name, value)
        self.exc_findings = []    # (fid, exc_type, when)
        self.allowed_exc = []     # (exc_type, regex)
        self.inputs = []          # names in creation order
        self.notes = {}

    # -- configuration
    def allow_exc(self, exc_type, regex='.*'):
        self.allowed_exc.append((exc_type, re.compile(regex, re.S)))

    def expect_exc(self, fid, exc_type, when=None):
        self.exc_findings.append((fid, exc_type, when))

    def arr(self, vals):
        raise NotImplementedError

    def vec(self, name, n, **kw):
        return self.arr([self.real('%s%d' % (name, i), **kw) for i in range(n)])

    def mat(self, name, n, p, **kw):
        return self.arr([[self.real('%s%d_%d' % (name, i, j), **kw) for j in range(p)] for i in range(n)])

    def all_(self, conds):
        conds = list(conds)
        r = self.true()
        for c in conds:
            r = self.and_(r, c)
        return r

    def any_(self, conds):
        r = self.false()
        for c in conds:
            r = self.or_(r, c)
        return r

    def abs_le(self, a, b):
        return self.and_(self.le(a, b), self.le(-b, a))


# ----------------------------------------------------------------------------------------------
class HSym(HBase):
    mode = 'sym'
    jit = False
    unpatched = False

    def __init__(self, unit, ctx):
        super().__init__(unit)
        self.ctx = ctx
        from . import shim
        self.np = shim.npx
        self._shim = shim
        self.symvars = {}

    def real(self, name, lo=None, hi=None, nonzero=False):
        import z3
        from .sym import SymReal
        v = z3.Real(name)
        self.symvars[name] = v
        self.inputs.append(name)
        s = SymReal(v)
        if lo is not None:
            self.ctx.assume(s >= lo)
        if hi is not None:
            self.ctx.assume(s <= hi)
        if nonzero:
            self.ctx.assume(s != 0)
        return s

    def constant(self, x):
        """a concrete rational hyper-parameter as an exact constant term (arithmetic on it stays exact in z3
        instead of going through rounded python floats)"""
        from .sym import SymReal, deround
        import z3
        return SymReal(z3.RealVal(str(deround(float(x)))))

    def choice(self, name, options):
        """A symbolic selection among concrete options (forks)."""
        from .sym import SymBool
        import z3
        self.inputs.append(name)
        v = z3.Int(name)
        self.symvars[name] = v
        for i, o in enumerate(options[:-1]):
            if bool(SymBool(v == i)):
                return o
        self.ctx.assume(SymBool(v == len(options) - 1))
        return options[-1]

    def arr(self, vals):
        return self._shim.sarr(vals)

    def const(self, a):
        """concrete float data -> array usable by the code under test"""
        a = _np.asarray(a)
        if a.dtype.kind in 'iub':
            return a
        return self._shim._obj(a)

    def csc(self, X, pattern=None):
        return self._shim.SymCSC.from_dense(X, pattern)

    def assume(self, *conds):
        self.ctx.assume(*conds)

    # conditions (no forking)
    def _b(self, c):
        from .sym import SymBool
        import z3
        if isinstance(c, SymBool):
            return c
        return SymBool(z3.BoolVal(bool(c)))

    def le(self, a, b):
        return self._b(self._cmp(a, b, 'le'))

    def lt(self, a, b):
        return self._b(self._cmp(a, b, 'lt'))

    def ge(self, a, b):
        return self.le(b, a)

    def gt(self, a, b):
        return self.lt(b, a)

    def eq(self, a, b):
        return self._b(self._cmp(a, b, 'eq'))

    def ne(self, a, b):
        return self.not_(self.eq(a, b))

    def _cmp(self, a, b, op):
        from .sym import SymReal, R, SymBool, _isinf
        from .dual import Dual
        import z3
        if isinstance(a, Dual) or isinstance(b, Dual):
            raise TypeError("compare Dual parts explicitly")
        ia, ib = _isinf(a), _isinf(b)
        if ia or ib:
            fa = a if ia else 0.0
            fb = b if ib else 0.0
            if ia and ib:
                return {'le': fa <= fb, 'lt': fa < fb, 'eq': fa == fb}[op]
            # exactly one infinite
            if ia:
                return {'le': fa < 0, 'lt': fa < 0, 'eq': False}[op]
            return {'le': fb > 0, 'lt': fb > 0, 'eq': False}[op]
        ta, tb = R(a), R(b)
        return SymBool({'le': ta <= tb, 'lt': ta < tb, 'eq': ta == tb}[op])

    def and_(self, a, b):
        import z3
        from .sym import SymBool
        return SymBool(z3.And(self._b(a).t, self._b(b).t))

    def or_(self, a, b):
        import z3
        from .sym import SymBool
        return SymBool(z3.Or(self._b(a).t, self._b(b).t))

    def not_(self, a):
        import z3
        from .sym import SymBool
        return SymBool(z3.Not(self._b(a).t))

    def implies(self, a, b):
        import z3
        from .sym import SymBool
        return SymBool(z3.Implies(self._b(a).t, self._b(b).t))

    def true(self):
        return self._b(True)

    def false(self):
        return self._b(False)

    def is_finite(self, v):
        from .sym import _isinf
        if _isinf(v) or (isinstance(v, float) and math.isnan(v)):
            return self.false()
        return self.true()

    def observe(self, name, v):
        self.observed.append((name, v))

    def ensure(self, name, cond, findings=None, info=None):
        """Record an obligation: on this path, ``cond`` must hold for every value of the inputs."""
        self.obligations.append(dict(name=name, cond=self._b(cond), findings=dict(findings or {}),
                                     info=info))

    # environment
    def penalty(self, cls, **kw):
        return cls(**kw)

    datafit = penalty

    def weights_arr(self, vals):
        return self.arr(vals)


class HFloat(HBase):
    """Concrete replay on floats; with jit=True the real compiled build is exercised."""
    mode = 'float'

    def __init__(self, unit, values, jit=True, unpatched=False, rng=None):
        super().__init__(unit)
        self.values = dict(values)
        self.jit = jit
        self.unpatched = unpatched
        self.np = _np
        self.rng = rng
        self.ctx = None

    def _val(self, name):
        if name in self.values:
            v = self.values[name]
            if isinstance(v, str):
                v = Fraction(v)
            return v
        if self.rng is not None:
            v = self.rng.gauss(0, 1)
            base = name.rstrip('0123456789_')
            if base in ('alpha', 'tol', 'step', 'gamma', 'eps', 'delta', 'L', 'c', 'alpha1', 'alpha2') or name in ('alpha1', 'alpha2'):
                v = abs(v) * (0.05 if base in ('tol', 'alpha') else 1.0) + 1e-3      # positive hyper-parameters
                if base == 'gamma':
                    v += 3.0
            elif base in ('wt', 'wg', 'wf', 'sw'):
                v = 0.0 if self.rng.random() < 0.3 else abs(v)                       # weights: zeros are frequent triggers
            self.values[name] = v         # cached: the same input keeps its value if the unit asks again
            return v
        return 0.0

    def real(self, name, lo=None, hi=None, nonzero=False):
        self.inputs.append(name)
        v = float(self._val(name))
        if lo is not None and v < lo:
            raise AssumptionFailed(name)
        if hi is not None and v > hi:
            raise AssumptionFailed(name)
        if nonzero and v == 0:
            raise AssumptionFailed(name)
        return v

    def constant(self, x):
        return float(x)

    def choice(self, name, options):
        self.inputs.append(name)
        k = int(self._val(name)) if name in self.values else (
            self.rng.randrange(len(options)) if self.rng else 0)
        k = min(max(k, 0), len(options) - 1)
        return options[k]

    def arr(self, vals):
        return _np.asarray(vals, dtype=float)

    def const(self, a):
        a = _np.asarray(a)
        if a.dtype.kind in 'iub':
            return a
        return _np.array(a, dtype=float, order='F')

    def csc(self, X, pattern=None):
        import scipy.sparse
        X = _np.asarray(X, dtype=float)
        n, p = X.shape
        data, indices, indptr = [], [], [0]
        for j in range(p):
            for i in range(n):
                keep = pattern[i][j] if pattern is not None else X[i, j] != 0
                if keep:
                    data.append(X[i, j])
                    indices.append(i)
            indptr.append(len(data))
        return scipy.sparse.csc_matrix((_np.array(data, dtype=float), _np.array(indices, dtype=_np.int32),
                                        _np.array(indptr, dtype=_np.int32)), shape=(n, p))

    def assume(self, *conds):
        for c in conds:
            ok = c.strict if isinstance(c, FCond) else bool(c)
            if not ok:
                raise AssumptionFailed()

    def le(self, a, b):
        a, b = float(a), float(b)
        if math.isnan(a) or math.isnan(b):
            return FCond(False, False)
        if math.isinf(a) or math.isinf(b):
            return FCond(a <= b)
        return FCond(a <= b, a <= b + FTOL * _scale(a, b))

    def lt(self, a, b):
        a, b = float(a), float(b)
        if math.isnan(a) or math.isnan(b):
            return FCond(False, False)
        if math.isinf(a) or math.isinf(b):
            return FCond(a < b)
        return FCond(a < b, a < b + FTOL * _scale(a, b))

    def ge(self, a, b):
        return self.le(b, a)

    def gt(self, a, b):
        return self.lt(b, a)

    def eq(self, a, b):
        a, b = float(a), float(b)
        if math.isnan(a) or math.isnan(b):
            return FCond(False, False)
        if math.isinf(a) or math.isinf(b):
            return FCond(a == b)
        return FCond(a == b, abs(a - b) <= FTOL * _scale(a, b))

    def ne(self, a, b):
        return self.not_(self.eq(a, b))

    def _c(self, c):
        return c if isinstance(c, FCond) else FCond(bool(c))

    def and_(self, a, b):
        a, b = self._c(a), self._c(b)
        return FCond(a.strict and b.strict, a.loose and b.loose)

    def or_(self, a, b):
        a, b = self._c(a), self._c(b)
        return FCond(a.strict or b.strict, a.loose or b.loose)

    def not_(self, a):
        a = self._c(a)
        return FCond(not a.loose, not a.strict)

    def implies(self, a, b):
        return self.or_(self.not_(a), b)

    def true(self):
        return FCond(True)

    def false(self):
        return FCond(False)

    def is_finite(self, v):
        return FCond(bool(_np.all(_np.isfinite(_np.asarray(v, dtype=float)))))

    def observe(self, name, v):
        try:
            self.observed.append((name, float(v)))
        except Exception:
            pass

    def ensure(self, name, cond, findings=None, info=None):
        c = self._c(cond)
        fnd = {}
        for k, p in (findings or {}).items():
            fnd[k] = self._c(p).strict
        self.obligations.append(dict(name=name, strict=c.strict, loose=c.loose, findings=fnd, info=info))

    def penalty(self, cls, **kw):
        kw2 = {}
        for k, v in kw.items():
            if isinstance(v, _np.ndarray) and v.dtype.kind == 'f':
                v = _np.ascontiguousarray(v, dtype=float)
            kw2[k] = v
        inst = cls(**kw2)
        if self.jit and hasattr(inst, 'get_spec') and hasattr(inst, 'params_to_dict'):
            from skglm.utils.jit_compilation import compiled_clone
            return compiled_clone(inst)
        return inst

    datafit = penalty


# ----------------------------------------------------------------------------------------------
def source_hashes(code_objects):
    out = {}
    for co in code_objects:
        try:
            fn = co.co_filename
            if not fn.startswith(REPO):
                continue
            lines, start = inspect.getsourcelines(co)
            src = ''.join(lines)
            key = "%s:%s" % (os.path.relpath(fn, REPO), co.co_qualname if hasattr(co, 'co_qualname') else co.co_name)
            out[key] = hashlib.sha256(src.encode()).hexdigest()[:16]
        except Exception:
            continue
    return out


class _Profiler:
    def __init__(self):
        self.codes = set()

    def __call__(self, frame, event, arg):
        if event == 'call':
            co = frame.f_code
            if co.co_filename.startswith(REPO):
                self.codes.add(co)


def _model_to_values(model, symvars):
    from .sym import model_value
    vals = {}
    for name, v in symvars.items():
        try:
            import z3
            mv = model.eval(v, model_completion=True)
            if z3.is_int_value(mv):
                vals[name] = str(mv.as_long())
            else:
                fv = model_value(model, v)
                vals[name] = str(fv) if fv is not None else "0"
        except Exception:
            vals[name] = "0"
    return vals


def run_unit_sym(unit, known_ids, validate_n=2, stop_on_violation=False):
    """Explore one unit symbolically.  Returns a JSON-able result record."""
    import z3
    from . import sym as S
    from .dual import NotDifferentiable
    t0 = time.time()
    rec = dict(id=unit.id, paths=0, transitions=0, obligations=0, discharged=0, nontrivial_paths=0,
               violations=[], known=[], inconclusive=[], traces=[], samples=[], functions={},
               exceptions_allowed=0, complete=True, reach_ok=0, patched=unit.patched)
    prof = _Profiler()
    state = dict(first=True)
    n_traces = [0]

    def body(ctx):
        h = HSym(unit, ctx)
        outcome, exc = 'done', None
        try:
            if state['first']:
                sys.setprofile(prof)
            try:
                unit.fn(h, **unit.kwargs)
            finally:
                if state['first']:
                    sys.setprofile(None)
                    state['first'] = False
        except S.Infeasible:
            return
        except AssumptionFailed:
            return
        except (NotDifferentiable,) + ENGINE_EXC as e:
            rec['inconclusive'].append(dict(kind='engine', path=rec['paths'], msg="%s: %s" % (type(e).__name__, e),
                                            tb=traceback.format_exc(limit=6)))
            outcome = 'engine'
        except Exception as e:          # CrossHair-style: never catch BaseException
            outcome, exc = 'exception', e
        # feasibility of the finished path (assumptions added late may have emptied it): this is
        # also the reachability twin -- a path only counts if `pc and not False` is sat.
        if ctx.model is None:
            r0, m0 = ctx.check()
        else:
            r0, m0 = 'sat', ctx.model
        if r0 == 'unsat':
            return
        rec['paths'] += 1
        if r0 == 'unknown':
            rec['inconclusive'].append(dict(kind='unknown', obligation=unit.id + '/path-feasibility',
                                            path=rec['paths']))
        else:
            rec['reach_ok'] += 1
        if ctx.n_branches > 0:
            rec['nontrivial_paths'] += 1
        if outcome == 'engine':
            return
        if outcome == 'exception':
            allowed = any(isinstance(exc, t) and r.search(str(exc)) for t, r in h.allowed_exc)
            if allowed:
                rec['exceptions_allowed'] += 1
            else:
                # obligation "no unexpected exception on a feasible path"
                fnd = {}
                for fid, et, when in h.exc_findings:
                    if isinstance(exc, et):
                        fnd[fid] = h._b(True if when is None else when)
                h.obligations.append(dict(name='no-exception', cond=h.false(), findings=fnd,
                                          info="%s: %s" % (type(exc).__name__, str(exc)[:200]),
                                          tb=traceback.format_exception(type(exc), exc, exc.__traceback__)[-3:]))
        # discharge obligations of this path
        for ob in h.obligations:
            rec['obligations'] += 1
            neg = z3.Not(ob['cond'].t)
            known_preds = [(fid, p) for fid, p in ob['findings'].items() if fid in known_ids]
            excl = [z3.Not(h._b(p).t) for _, p in known_preds]
            r, m = ctx.check(neg, *excl)
            oid = "%s/%s" % (unit.id, ob['name'])
            if r == 'unsat':
                rec['discharged'] += 1
            elif r == 'sat':
                rec['violations'].append(dict(obligation=oid, values=_model_to_values(m, h.symvars),
                                              info=ob.get('info'), path=rec['paths'],
                                              tb=ob.get('tb')))
            else:
                rec['inconclusive'].append(dict(kind='unknown', obligation=oid, path=rec['paths']))
            for fid, p in known_preds:
                if any(k['finding'] == fid and k['obligation'] == oid for k in rec['known']):
                    continue
                r2, m2 = ctx.check(neg, h._b(p).t)
                if r2 == 'sat':
                    rec['known'].append(dict(finding=fid, obligation=oid,
                                             values=_model_to_values(m2, h.symvars), info=ob.get('info')))
            if len(rec['samples']) < 3:
                rec['samples'].append(dict(obligation=oid, path_condition=[str(z3.simplify(c))[:160] for c in ctx.pc[:6]],
                                           negated_post=str(z3.simplify(neg))[:200], verdict=r))
        # trace for translator validation (engine prediction under a model vs the real build)
        if (outcome == 'done' and r0 == 'sat' and n_traces[0] < validate_n and h.observed
                and not ctx.exp_atoms and not ctx.log_atoms):     # models of uninterpreted exp/log are not faithful
            m = m0
            obs = []
            for name, v in h.observed:
                try:
                    fv = S.model_value(m, S.R(v))
                    if fv is not None and not isinstance(fv, bool):
                        obs.append((name, float(fv)))
                except Exception:
                    pass
            if obs:
                rec['traces'].append(dict(values=_model_to_values(m, h.symvars), observed=obs))
                n_traces[0] += 1

    # hard wall limit for a single path (a path can contain many solver calls): SIGALRM between solver calls
    import signal

    class _HardTimeout(BaseException):
        pass

    def _on_alarm(signum, frame):
        raise _HardTimeout()
    hard = max(30.0, 2.0 * unit.wall_s)
    old_handler = None
    try:
        old_handler = signal.signal(signal.SIGALRM, _on_alarm)
        signal.setitimer(signal.ITIMER_REAL, hard)
    except (ValueError, AttributeError):
        old_handler = None
    try:
        res = S.explore(body, max_paths=unit.max_paths, wall_s=unit.wall_s, timeout_ms=unit.timeout_ms)
    except _HardTimeout:
        S.Ctx.cur = None
        res = dict(n_paths=rec['paths'], complete=False, stats=S.Stats(), transitions=0, wall_s=hard)
    finally:
        try:
            signal.setitimer(signal.ITIMER_REAL, 0)
            if old_handler is not None:
                signal.signal(signal.SIGALRM, old_handler)
        except (ValueError, AttributeError):
            pass
    rec['complete'] = res['complete']
    rec['transitions'] = res['transitions']
    rec['solver'] = res['stats'].as_dict()
    rec['functions'] = source_hashes(prof.codes)
    rec['wall_s'] = round(time.time() - t0, 3)
    if not res['complete']:
        rec['inconclusive'].append(dict(kind='budget', msg='path/wall budget exhausted after %d paths' % res['n_paths']))
    return rec


def run_unit_float(unit, values, jit=True, unpatched=False, rng=None):
    """Run a unit concretely.  Returns dict(outcome=..., obligations=[...], observed=[...])."""
    h = HFloat(unit, values, jit=jit, unpatched=unpatched, rng=rng)
    out = dict(outcome='done', obligations=[], observed=[], exc=None, inputs={})
    try:
        with _np.errstate(all='ignore'):
            unit.fn(h, **unit.kwargs)
    except AssumptionFailed:
        out['outcome'] = 'assumption-failed'
    except ENGINE_EXC as e:
        out['outcome'] = 'engine'
        out['exc'] = "%s: %s" % (type(e).__name__, e)
    except Exception as e:
        allowed = any(isinstance(e, t) and r.search(str(e)) for t, r in h.allowed_exc)
        out['outcome'] = 'exception-allowed' if allowed else 'exception'
        out['exc'] = "%s: %s" % (type(e).__name__, str(e)[:300])
        out['exc_type'] = type(e).__name__
        fnd = {}
        for fid, et, when in h.exc_findings:
            if isinstance(e, et):
                fnd[fid] = True if when is None else h._c(when).strict
        out['exc_findings'] = fnd
    out['obligations'] = h.obligations
    out['observed'] = h.observed
    out['input_names'] = h.inputs
    out['values'] = {k: (v if isinstance(v, str) else repr(float(v))) for k, v in h.values.items()}
    return out
