"""Forward-mode truncated jets p + eps*t + eps^2*s over SymReal with *lexicographic* comparisons.

Running skglm's real ``value()`` code on ``w + eps*d`` yields, in the ``t`` part, the exact one-sided
directional derivative of whatever piecewise-smooth function that code computes (kinks and region
boundaries included, because every comparison breaks ties with the higher-order parts).  The
second-order part is carried so that ``sqrt(sum((eps*d)**2))`` (a norm evaluated at the origin) has
the correct first-order part ``eps*||d||``; after such an operation the second-order part is unknown
(None) and any later operation that would need it raises NotDifferentiable.
"""
import numpy as _np
import z3

from .sym import SymReal, SymBool, R, Lifted, _isnd, _isinf


def _t(x):
    return x if isinstance(x, SymReal) else SymReal(R(x))


class NotDifferentiable(Exception):
    pass


def _add(a, b):
    return None if (a is None or b is None) else a + b


def _sub(a, b):
    return None if (a is None or b is None) else a - b


def _is0(x):
    v = z3.simplify(x.t)
    return z3.is_rational_value(v) and v.numerator_as_long() == 0


def _mul(a, b):
    """product where either factor may be unknown (None); 0 * unknown = 0."""
    if a is None:
        return _t(0) if _is0(b) else None
    if b is None:
        return _t(0) if _is0(a) else None
    return a * b


class Dual(Lifted):
    __slots__ = ("p", "t", "s", "sq")

    def __init__(self, p, t=0, s=0, sq=None):
        self.p = _t(p)
        self.t = _t(t)
        self.s = None if s is None else _t(s)
        self.sq = sq          # the radicand (a Dual), when this jet was produced by sqrt(): x**2 and x*x return it exactly

    @staticmethod
    def lift(o):
        if isinstance(o, Dual):
            return o
        if isinstance(o, _np.ndarray):
            o = o.item()
        return Dual(o, 0, 0)

    def __repr__(self):
        return "Dual(%r, %r, %r)" % (self.p, self.t, self.s)

    def __format__(self, f):
        return "<dual>"

    def __add__(s, o):
        if _isnd(o):
            return NotImplemented
        if _isinf(o):
            return o
        o = Dual.lift(o)
        return Dual(s.p + o.p, s.t + o.t, _add(s.s, o.s))

    __radd__ = __add__

    def __sub__(s, o):
        if _isnd(o):
            return NotImplemented
        if _isinf(o):
            return -o
        o = Dual.lift(o)
        return Dual(s.p - o.p, s.t - o.t, _sub(s.s, o.s))

    def __rsub__(s, o):
        if _isnd(o):
            return NotImplemented
        if _isinf(o):
            return o
        o = Dual.lift(o)
        return Dual(o.p - s.p, o.t - s.t, _sub(o.s, s.s))

    def __mul__(s, o):
        if _isnd(o):
            return NotImplemented
        o = Dual.lift(o)
        s2 = _add(_add(_mul(s.p, o.s), s.t * o.t), _mul(s.s, o.p))
        return Dual(s.p * o.p, s.p * o.t + s.t * o.p, s2)

    __rmul__ = __mul__

    def __truediv__(s, o):
        if _isnd(o):
            return NotImplemented
        if _isinf(o):
            return 0.0
        o = Dual.lift(o)
        q0 = s.p / o.p
        q1 = (s.t - q0 * o.t) / o.p
        num2 = _sub(_sub(s.s, _mul(q0, o.s)), q1 * o.t)
        q2 = None if num2 is None else num2 / o.p
        return Dual(q0, q1, q2)

    def __rtruediv__(s, o):
        if _isnd(o):
            return NotImplemented
        return Dual.lift(o) / s

    def __neg__(s):
        return Dual(-s.p, -s.t, None if s.s is None else -s.s)

    def __pos__(s):
        return s

    def __pow__(s, k):
        if isinstance(k, (int, _np.integer)) or (isinstance(k, float) and k.is_integer()):
            k = int(k)
            if k == 2 and s.sq is not None:
                return s.sq
            if k >= 0:
                r = Dual(1, 0, 0)
                for _ in range(k):
                    r = r * s
                return r
            return 1 / (s ** (-k))
        if k == 0.5:
            return s.sqrt()
        from fractions import Fraction
        fk = Fraction(k).limit_denominator(1000)
        if abs(float(fk) - float(k)) > 1e-15:
            raise NotImplementedError("Dual ** %r" % (k,))
        if bool(s.p == 0):
            raise NotDifferentiable("fractional power at 0")
        y = s.p.root_pow(fk.numerator, fk.denominator)
        r = _t(fk)
        y1 = r * y / s.p * s.t
        y2 = None if s.s is None else (r * y / s.p * s.s + r * (r - 1) / 2 * y / (s.p * s.p) * s.t * s.t)
        return Dual(y, y1, y2)

    # lexicographic order
    def _lt(s, o):
        o = Dual.lift(o)
        tie2 = z3.And(s.p.t == o.p.t, s.t.t == o.t.t)
        if s.s is None or o.s is None:
            if bool(SymBool(tie2)):
                raise NotDifferentiable("comparison tie at first order with unknown second order part")
            return SymBool(z3.Or(s.p.t < o.p.t, z3.And(s.p.t == o.p.t, s.t.t < o.t.t)))
        return SymBool(z3.Or(s.p.t < o.p.t, z3.And(s.p.t == o.p.t, s.t.t < o.t.t),
                             z3.And(tie2, s.s.t < o.s.t)))

    def _eq(s, o):
        o = Dual.lift(o)
        tie2 = z3.And(s.p.t == o.p.t, s.t.t == o.t.t)
        if s.s is None or o.s is None:
            if bool(SymBool(tie2)):
                raise NotDifferentiable("equality tie at first order with unknown second order part")
            return SymBool(z3.BoolVal(False))
        return SymBool(z3.And(tie2, s.s.t == o.s.t))

    def __lt__(s, o):
        if _isnd(o):
            return NotImplemented
        if _isinf(o):
            return o > 0
        return s._lt(o)

    def __gt__(s, o):
        if _isnd(o):
            return NotImplemented
        if _isinf(o):
            return o < 0
        return Dual.lift(o)._lt(s)

    def __le__(s, o):
        if _isnd(o):
            return NotImplemented
        if _isinf(o):
            return o > 0
        return ~Dual.lift(o)._lt(s)

    def __ge__(s, o):
        if _isnd(o):
            return NotImplemented
        if _isinf(o):
            return o < 0
        return ~s._lt(o)

    def __eq__(s, o):
        if _isnd(o):
            return NotImplemented
        if _isinf(o):
            return False
        return s._eq(o)

    def __ne__(s, o):
        if _isnd(o):
            return NotImplemented
        if _isinf(o):
            return True
        return ~s._eq(o)

    __hash__ = None

    def __abs__(s):
        return s if bool(s >= 0) else -s

    def sqrt(s):
        # evaluated on demand (also the differentiability check at 0): sqrt(x)**2 must never fail or create root variables
        return _LazySqrtDual(s)

    def exp(s):
        e = s.p.exp()
        return Dual(e, e * s.t, None if s.s is None else e * (s.s + s.t * s.t / 2))

    def log(s):
        l1 = s.t / s.p
        return Dual(s.p.log(), l1, None if s.s is None else s.s / s.p - l1 * l1 / 2)

    def conjugate(s):
        return s

    def copy(s):
        return s


class _LazySqrtDual(Dual):
    """sqrt of a jet with non-zero primal part, evaluated on demand: x**2 returns the radicand without ever creating the
    root / quotient variables (keeps  norm(v)**2  polynomial in dual-number runs of value())."""
    __slots__ = ("_rad", "_val")

    def __init__(self, rad):
        self._rad = rad
        self._val = None
        self.sq = rad

    def _force(self):
        if self._val is None:
            r = self._rad
            if bool(r.p == 0):
                if not bool(r.t == 0):
                    raise NotDifferentiable("sqrt at 0 with non-zero first-order part")
                if r.s is None:
                    raise NotDifferentiable("sqrt at 0 with unknown second-order part")
                # sqrt(eps^2 * s) = eps * sqrt(s)
                self._val = (_t(0), r.s.sqrt(), None)
                return self._val
            r0 = r.p.sqrt()
            r1 = r.t / (2 * r0)
            r2 = None if r.s is None else (r.s - r1 * r1) / (2 * r0)
            self._val = (r0, r1, r2)
        return self._val

    @property
    def p(self):
        return self._force()[0]

    @property
    def t(self):
        return self._force()[1]

    @property
    def s(self):
        return self._force()[2]


def primal(x):
    return x.p if isinstance(x, Dual) else x


def tangent(x):
    return x.t if isinstance(x, Dual) else 0.0
