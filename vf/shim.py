"""Object-dtype arrays and the numpy shim rebound inside skglm's modules (check process only).

Arrays stay genuine numpy.ndarrays (dtype=object) so that views, aliasing, fancy indexing, broadcasting
and *bounds checks* are numpy's own.  Only the functions whose float implementation cannot work on
symbolic elements are replaced by term builders.
"""
import builtins
import math
import sys
import types

import numpy as _np
import z3

from .sym import SymReal, SymBool, Ctx, R, B, sym, is_symbolic, NonFinite, _isinf
from .dual import Dual

_SYMT = (SymReal, SymBool, Dual)


# ----------------------------------------------------------------------------------------------
class SArr(_np.ndarray):
    """object-dtype ndarray subclass holding SymReal / Dual / python numbers."""

    def __new__(cls, data):
        a = _np.asarray(data, dtype=object) if not isinstance(data, _np.ndarray) else data
        if a.dtype != object:
            b = _np.empty(a.shape, dtype=object)
            b[...] = a.tolist() if a.ndim else a.item()
            a = b
        return a.view(cls)

    # -- boolean masks holding SymBool are realised (forking) at indexing time
    def _conv(self, key):
        if isinstance(key, _np.ndarray) and key.dtype == object and key.size and all(
                isinstance(k, (SymBool, bool, _np.bool_)) for k in key.flat):
            return _np.array([bool(k) for k in key.flat], dtype=bool).reshape(key.shape)
        if isinstance(key, tuple):
            return tuple(self._conv(k) for k in key)
        if isinstance(key, SymReal):
            return int(key)
        return key

    def __getitem__(self, key):
        r = _np.ndarray.__getitem__(self, self._conv(key))
        return r

    def __setitem__(self, key, val):
        if isinstance(val, _np.ndarray) and val.dtype != object and val.dtype.kind == 'f':
            val = _obj(val)
        return _np.ndarray.__setitem__(self, self._conv(key), val)

    def __array_wrap__(self, out, context=None, return_scalar=False):
        if out.ndim == 0:
            return out[()]
        if out.dtype != object:
            return out.view(_np.ndarray)
        return _np.ndarray.__array_wrap__(self, out, context, return_scalar)

    def __array_finalize__(self, obj):
        pass

    def __matmul__(self, o):
        if isinstance(o, SymCSC):
            return NotImplemented
        return _unwrap(_np.matmul(_np.asarray(self), _np.asarray(_objify(o))))

    def __rmatmul__(self, o):
        return _unwrap(_np.matmul(_np.asarray(_objify(o)), _np.asarray(self)))

    def dot(self, o):
        return self.__matmul__(o)

    def sum(self, axis=None, **k):
        return asum(self, axis=axis)

    def max(self, axis=None, **k):
        return amax(self, axis=axis)

    def min(self, axis=None, **k):
        return amin(self, axis=axis)

    def mean(self, axis=None, **k):
        return mean(self, axis=axis)

    def any(self, axis=None, **k):
        return aany(self)

    def all(self, axis=None, **k):
        return aall(self)

    def astype(self, dtype, *a, **k):
        dt = _np_dtype(dtype)
        if dt.kind in 'fO':
            return self.copy()
        if dt.kind == 'b':
            return _np.array([bool(v != 0) if not isinstance(v, (bool, _np.bool_, SymBool)) else bool(v)
                              for v in self.flat], dtype=bool).reshape(self.shape)
        return _np.array([int(v) for v in self.flat], dtype=dt).reshape(self.shape)

    def argsort(self, *a, **k):
        return argsort(self)

    def __float__(self):
        if self.size == 1:
            return float(self.flat[0])
        raise TypeError("array to float")


class _ObjDtypeCls:
    """dtype stand-in: compares equal to no float type, has .type usable as a caster."""
    kind = 'O'
    itemsize = 8
    name = 'object'

    def type(self, x=0):
        return x

    def __eq__(self, o):
        return o is self or o is object or (isinstance(o, _np.dtype) and o == _np.dtype(object))

    def __ne__(self, o):
        return not self.__eq__(o)

    def __hash__(self):
        return hash('objdtype')

    def __repr__(self):
        return "dtype('O*')"


_ObjDtype = _ObjDtypeCls()


def _np_dtype(dtype):
    if dtype is _ObjDtype or dtype is None:
        return _np.dtype(object)
    if isinstance(dtype, _np.dtype):
        return dtype
    # numba type objects (bool_, float64, int32 ...) are legal dtypes only under JIT
    name = getattr(dtype, 'name', None)
    if name is not None and not isinstance(dtype, type):
        try:
            return _np.dtype(str(name))
        except TypeError:
            pass
    return _np.dtype(dtype)


def _unwrap(r):
    if isinstance(r, _np.ndarray):
        if r.ndim == 0:
            return r[()]
        if r.dtype == object and not isinstance(r, SArr):
            return r.view(SArr)
    return r


def _obj(a):
    """float/int ndarray (or nested list) -> SArr with python-number elements."""
    if isinstance(a, SArr):
        return a
    a = _np.asarray(a)
    if a.dtype == object:
        return a.view(SArr)
    out = _np.empty(a.shape, dtype=object)
    if a.ndim:
        out[...] = a.tolist()
    else:
        out[()] = a.item()
    return out.view(SArr)


def _objify(o):
    if isinstance(o, _np.ndarray) and o.dtype != object and o.dtype.kind in 'fiub':
        return _obj(o)
    if isinstance(o, (list, tuple)):
        return _obj(_np.asarray(o, dtype=object))
    return o


def sarr(vals):
    return SArr(_np.asarray(vals, dtype=object))


def _has_sym(a):
    if isinstance(a, _SYMT):
        return True
    if isinstance(a, _np.ndarray):
        return a.dtype == object
    if isinstance(a, (list, tuple)):
        return any(_has_sym(x) for x in a)
    return False


# ----------------------------------------------------------------------------------------------
# elementwise builders
def _s_abs(v):
    return abs(v)


def _s_sign(v):
    if isinstance(v, SymReal):
        return SymReal(z3.If(v.t > 0, z3.RealVal(1), z3.If(v.t < 0, z3.RealVal(-1), z3.RealVal(0))))
    if isinstance(v, Dual):
        return 1.0 if bool(v > 0) else (-1.0 if bool(v < 0) else 0.0)
    return float(_np.sign(v))


def _exact_sqrt(v):
    """sqrt of a concrete number inside the exact engine: exact for rational perfect squares, otherwise an
    algebraic value (symbolic root with its defining polynomial) -- never a rounded float, so that
    ``norm(x) ** 2`` stays exactly ``sum(x ** 2)``."""
    from fractions import Fraction
    from .sym import deround
    f = deround(float(v)) if not isinstance(v, Fraction) else v
    num, den = f.numerator, f.denominator
    rn, rd = math.isqrt(num), math.isqrt(den)
    if rn * rn == num and rd * rd == den:
        return float(Fraction(rn, rd)) if Fraction(rn, rd).denominator <= 10 ** 9 else Fraction(rn, rd)
    if Ctx.cur is None:
        return math.sqrt(v)
    return sym(f).sqrt()


def _s_sqrt(v):
    if isinstance(v, (SymReal, Dual)):
        return v.sqrt()
    if v < 0:
        raise ValueError("sqrt of negative (nan)")
    return _exact_sqrt(v)


def _s_exp(v):
    if isinstance(v, (SymReal, Dual)):
        return v.exp()
    return math.exp(v)


def _s_log(v):
    if isinstance(v, (SymReal, Dual)):
        return v.log()
    if v <= 0:
        raise ValueError("log of non-positive")
    return math.log(v)


def _s_log1p(v):
    return _s_log(1 + v)


def _ew(fn, npfn):
    uf = _np.frompyfunc(fn, 1, 1)

    def f(x, *a, **k):
        if isinstance(x, _SYMT):
            return fn(x)
        if isinstance(x, _np.ndarray) and x.dtype == object:
            return _unwrap(uf(x))
        if isinstance(x, (list, tuple)) and _has_sym(x):
            return _unwrap(uf(_np.asarray(x, dtype=object)))
        return npfn(x, *a, **k)
    return f


absf = _ew(_s_abs, _np.abs)
sign = _ew(_s_sign, _np.sign)
sqrt = _ew(_s_sqrt, _np.sqrt)
exp = _ew(_s_exp, _np.exp)
log = _ew(_s_log, _np.log)
log1p = _ew(_s_log1p, _np.log1p)


def _smax(a, b):
    if _isinf(a):
        return a if a > 0 else b
    if _isinf(b):
        return b if b > 0 else a
    if isinstance(a, Dual) or isinstance(b, Dual):
        return a if bool(a >= b) else b
    if not isinstance(a, SymReal) and not isinstance(b, SymReal):
        return a if a >= b else b
    return SymReal(z3.If(R(a) >= R(b), R(a), R(b)))


def _smin(a, b):
    if _isinf(a):
        return b if a > 0 else a
    if _isinf(b):
        return a if b > 0 else b
    if isinstance(a, Dual) or isinstance(b, Dual):
        return a if bool(a <= b) else b
    if not isinstance(a, SymReal) and not isinstance(b, SymReal):
        return a if a <= b else b
    return SymReal(z3.If(R(a) <= R(b), R(a), R(b)))


def _reduce(fn, a, axis):
    a = _np.asarray(a)
    if axis is None:
        it = list(a.flat)
        if not it:
            raise ValueError("zero-size array to reduction operation which has no identity")
        r = it[0]
        for v in it[1:]:
            r = fn(r, v)
        return r
    a = _np.moveaxis(a, axis, 0)
    r = a[0]
    uf = _np.frompyfunc(fn, 2, 1)
    for k in range(1, a.shape[0]):
        r = uf(r, a[k])
    return _unwrap(_np.asarray(r, dtype=object))


def amax(a, axis=None, **k):
    if isinstance(a, _np.ndarray) and a.dtype != object:
        return _np.max(a.view(_np.ndarray), axis=axis)
    if not isinstance(a, _np.ndarray):
        if isinstance(a, (list, tuple)) and not _has_sym(a):
            return _np.max(a, axis=axis)
        a = _np.asarray(a, dtype=object)
    return _reduce(_smax, a, axis)


def amin(a, axis=None, **k):
    if isinstance(a, _np.ndarray) and a.dtype != object:
        return _np.min(a.view(_np.ndarray), axis=axis)
    if not isinstance(a, _np.ndarray):
        if isinstance(a, (list, tuple)) and not _has_sym(a):
            return _np.min(a, axis=axis)
        a = _np.asarray(a, dtype=object)
    return _reduce(_smin, a, axis)


def maximum(a, b, **k):
    if not _has_sym(a) and not _has_sym(b):
        return _np.maximum(a, b)
    if isinstance(a, _np.ndarray) or isinstance(b, _np.ndarray):
        return _unwrap(_np.frompyfunc(_smax, 2, 1)(_objify(a), _objify(b)))
    return _smax(a, b)


def minimum(a, b, **k):
    if not _has_sym(a) and not _has_sym(b):
        return _np.minimum(a, b)
    if isinstance(a, _np.ndarray) or isinstance(b, _np.ndarray):
        return _unwrap(_np.frompyfunc(_smin, 2, 1)(_objify(a), _objify(b)))
    return _smin(a, b)


def _plus(a, b):
    if isinstance(a, (bool, _np.bool_)):
        a = int(a)
    if isinstance(b, (bool, _np.bool_)):
        b = int(b)
    return a + b


def asum(a, axis=None, **k):
    if isinstance(a, _np.ndarray) and a.dtype != object:
        return _np.sum(a.view(_np.ndarray), axis=axis)
    if not isinstance(a, _np.ndarray):
        if isinstance(a, _SYMT):
            return a
        if not _has_sym(a):
            return _np.sum(a, axis=axis)
        a = _np.asarray(a, dtype=object)
    if a.size == 0:
        return 0.0
    if axis is None:
        r = 0.0
        for v in a.flat:
            if isinstance(v, SymBool):
                v = int(bool(v))
            r = _plus(r, v)
        return r
    return _reduce(_plus, a, axis)


def mean(a, axis=None, **k):
    a = _np.asarray(a)
    if a.dtype != object:
        return _np.mean(a.view(_np.ndarray), axis=axis)
    if axis is None:
        return asum(a) / a.size
    return asum(a, axis=axis) / a.shape[axis]


def aany(a, axis=None, **k):
    if isinstance(a, (SymBool, bool, _np.bool_)):
        return bool(a)
    a = _np.asarray(a)
    if a.dtype != object:
        return bool(_np.any(a.view(_np.ndarray)))
    # truthiness of numbers: v != 0
    for v in a.flat:
        if isinstance(v, (SymBool, bool, _np.bool_)):
            if bool(v):
                return True
        elif bool(v != 0):
            return True
    return False


def aall(a, axis=None, **k):
    if isinstance(a, (SymBool, bool, _np.bool_)):
        return bool(a)
    a = _np.asarray(a)
    if a.dtype != object:
        return bool(_np.all(a.view(_np.ndarray)))
    for v in a.flat:
        if isinstance(v, (SymBool, bool, _np.bool_)):
            if not bool(v):
                return False
        elif not bool(v != 0):
            return False
    return True


def _lt(a, b):
    return bool(a < b)


def argmax(a, axis=None):
    a = _np.asarray(a)
    if a.dtype != object:
        return _np.argmax(a, axis=axis)
    best, bi = None, 0
    for i, v in enumerate(a.flat):
        if best is None or bool(v > best):
            best, bi = v, i
    return bi


def argmin(a, axis=None):
    a = _np.asarray(a)
    if a.dtype != object:
        return _np.argmin(a, axis=axis)
    best, bi = None, 0
    for i, v in enumerate(a.flat):
        if best is None or bool(v < best):
            best, bi = v, i
    return bi


def argsort(a, axis=-1, kind=None):
    a = _np.asarray(a)
    if a.dtype != object:
        return _np.argsort(a, axis=axis, kind='stable')
    assert a.ndim == 1
    idx = list(range(a.shape[0]))
    # stable insertion sort (forks on comparisons)
    for i in range(1, len(idx)):
        j = i
        while j > 0 and _lt(a[idx[j]], a[idx[j - 1]]):
            idx[j], idx[j - 1] = idx[j - 1], idx[j]
            j -= 1
    return _np.array(idx, dtype=_np.int64)


def sort(a, axis=-1):
    a = _np.asarray(a)
    if a.dtype != object:
        return _np.sort(a, axis=axis)
    return a[argsort(a)].view(SArr)


def _less_f(a, b):
    return bool(a < b)


def argpartition(a, kth, axis=-1):
    """Port of numpy's float64 introselect (argpartition) so that the returned *order* matches the
    real run; comparisons fork.  Validated against numpy on random float inputs (vf.selftest)."""
    a = _np.asarray(a)
    if a.dtype != object:
        return _np.argpartition(a, kth, axis=axis)
    assert a.ndim == 1
    num = a.shape[0]
    if kth < 0:
        kth += num
    if not (0 <= kth < num):
        raise ValueError("kth(=%d) out of bounds (%d)" % (kth, num))
    v = list(a)
    ts = list(range(num))
    less = _less_f

    def V(i):
        return v[ts[i]]

    def swap(i, j):
        ts[i], ts[j] = ts[j], ts[i]

    low, high = 0, num - 1
    if kth - low < 3:
        # dumb_select
        for i in range(kth + 1):
            minidx, minval = i, V(i)
            for k in range(i + 1, num):
                if less(V(k), minval):
                    minidx, minval = k, V(k)
            swap(i, minidx)
        return _np.array(ts, dtype=_np.int64)
    if kth == num - 1:
        maxidx, maxval = low, V(low)
        for k in range(low + 1, num):
            if not less(V(k), maxval):
                maxidx, maxval = k, V(k)
        swap(kth, maxidx)
        return _np.array(ts, dtype=_np.int64)
    depth_limit = (num.bit_length() - 1) * 2
    while low + 1 < high:
        ll, hh = low + 1, high
        if depth_limit > 0 or hh - ll < 5:
            mid = low + (high - low) // 2
            if less(V(high), V(mid)):
                swap(high, mid)
            if less(V(high), V(low)):
                swap(high, low)
            if less(V(low), V(mid)):
                swap(low, mid)
            swap(mid, low + 1)
        else:
            raise NotImplementedError("median-of-medians branch (array too large for the bound)")
        depth_limit -= 1
        pivot = V(low)
        while True:
            ll += 1
            while less(V(ll), pivot):
                ll += 1
            hh -= 1
            while less(pivot, V(hh)):
                hh -= 1
            if hh < ll:
                break
            swap(ll, hh)
        swap(low, hh)
        if hh >= kth:
            high = hh - 1
        if hh <= kth:
            low = ll
    if high == low + 1:
        if less(V(high), V(low)):
            swap(high, low)
    return _np.array(ts, dtype=_np.int64)


# constructors ---------------------------------------------------------------------------------
def _is_numeric_dtype(dtype):
    if dtype is None or dtype is _ObjDtype:
        return False
    try:
        return _np_dtype(dtype).kind in 'iub'
    except TypeError:
        return False


def zeros(shape, dtype=None, order='C'):
    if _is_numeric_dtype(dtype):
        return _np.zeros(shape, _np_dtype(dtype))
    return _obj(_np.zeros(shape))


def ones(shape, dtype=None, order='C'):
    if _is_numeric_dtype(dtype):
        return _np.ones(shape, _np_dtype(dtype))
    return _obj(_np.ones(shape))


def empty(shape, dtype=None, order='C'):
    return zeros(shape, dtype)


def full(shape, v, dtype=None, order='C'):
    o = zeros(shape)
    o[...] = v
    return o


def zeros_like(a, dtype=None, **k):
    if _is_numeric_dtype(dtype):
        return _np.zeros(_np.shape(a), _np_dtype(dtype))
    if dtype is None and isinstance(a, _np.ndarray) and a.dtype != object and a.dtype.kind in 'iub':
        return _np.zeros_like(a)
    return zeros(_np.shape(a))


def ones_like(a, dtype=None, **k):
    if _is_numeric_dtype(dtype):
        return _np.ones(_np.shape(a), _np_dtype(dtype))
    return ones(_np.shape(a))


def full_like(a, v, dtype=None, **k):
    return full(_np.shape(a), v)


def array(obj, dtype=None, copy=True, order=None, **k):
    if _is_numeric_dtype(dtype):
        return _np.array(obj, dtype=_np_dtype(dtype))
    if isinstance(obj, _np.ndarray):
        if obj.dtype == object or dtype is _ObjDtype:
            return _obj(obj).copy() if copy else _obj(obj)
        if dtype is None:
            return _np.array(obj)
        return _obj(_np.array(obj, dtype=float))
    if _has_sym(obj) or dtype is _ObjDtype:
        return _obj(_np.array(obj, dtype=object))
    if dtype is None:
        r = _np.array(obj)
        return _obj(r) if r.dtype.kind == 'f' else r
    return _np.array(obj, dtype=dtype)


def asarray(obj, dtype=None, **k):
    if isinstance(obj, _np.ndarray) and (dtype is None or _np_dtype(dtype) == obj.dtype):
        return obj
    return array(obj, dtype=dtype, copy=False)


def asfortranarray(a, dtype=None):
    return a


def append(a, v, axis=None):
    a = _np.asarray(a)
    if a.dtype != object and not _has_sym(v):
        return _np.append(a, v, axis=axis)
    return _unwrap(_np.append(_np.asarray(_objify(a), dtype=object), _objify(v), axis=axis))


def hstack(tup):
    if not any(_has_sym(t) for t in tup):
        return _np.hstack(tup)
    parts = [_np.atleast_1d(_np.asarray(_objify(t), dtype=object)) for t in tup]
    return _unwrap(_np.concatenate(parts, axis=0 if parts[0].ndim == 1 else 1))


def vstack(tup):
    if not any(_has_sym(t) for t in tup):
        return _np.vstack(tup)
    return _unwrap(_np.vstack([_np.asarray(_objify(t), dtype=object) for t in tup]))


def column_stack(tup):
    if not any(_has_sym(t) for t in tup):
        return _np.column_stack(tup)
    return _unwrap(_np.column_stack([_np.asarray(_objify(t), dtype=object) for t in tup]))


def diff(a, n=1, axis=-1):
    a = _np.asarray(a)
    if a.dtype != object:
        return _np.diff(a, n=n, axis=axis)
    a = _np.moveaxis(a, axis, -1)
    r = a[..., 1:] - a[..., :-1]
    return _unwrap(_np.moveaxis(r, -1, axis))


def dot(a, b):
    if not _has_sym(a) and not _has_sym(b):
        return _np.dot(a, b)
    return _unwrap(_np.matmul(_np.asarray(_objify(a), dtype=object), _np.asarray(_objify(b), dtype=object)))


def cumsum(a, axis=None):
    a = _np.asarray(a)
    if a.dtype != object:
        return _np.cumsum(a, axis=axis)
    out = []
    r = 0.0
    for v in a.flat:
        r = r + v
        out.append(r)
    return sarr(out)


def where(cond, *a):
    if isinstance(cond, _np.ndarray) and cond.dtype == object:
        cond = _np.array([bool(c) for c in cond.flat], dtype=bool).reshape(cond.shape)
    return _np.where(cond, *a)


def _truth_mask(a):
    a = _np.asarray(a)
    if a.dtype != object:
        return a != 0
    return _np.array([bool(v) if isinstance(v, (SymBool, bool, _np.bool_)) else bool(v != 0) for v in a.flat],
                     dtype=bool).reshape(a.shape)


def flatnonzero(a):
    return _np.flatnonzero(_truth_mask(a))


def nonzero(a):
    return _np.nonzero(_truth_mask(a))


def count_nonzero(a, axis=None):
    return _np.count_nonzero(_truth_mask(a), axis=axis)


def logical_and(a, b):
    if isinstance(a, _np.ndarray) and a.dtype == object:
        a = _np.array([bool(c) for c in a.flat], dtype=bool).reshape(a.shape)
    if isinstance(b, _np.ndarray) and b.dtype == object:
        b = _np.array([bool(c) for c in b.flat], dtype=bool).reshape(b.shape)
    return _np.logical_and(a, b)


def isclose(a, b, **k):
    if _has_sym(a) or _has_sym(b):
        raise NotImplementedError("isclose on symbolic values")
    return _np.isclose(a, b, **k)


def cos(x):
    if isinstance(x, _CosArg):
        return x.cos()
    if _has_sym(x):
        raise NotImplementedError("cos of a symbolic value")
    return _np.cos(x)


class _CosArg:
    """(2/3)*arccos(z): carried lazily so that cos(.) can be encoded algebraically:
    c in [1/2, 1], 4c^3 - 3c = z, result 2c^2 - 1 = cos((2/3) arccos z) for z in [-1, 1]."""

    def __init__(self, z, scale=1.0):
        self.z, self.scale = z, scale

    def __rmul__(self, k):
        return _CosArg(self.z, self.scale * k)

    __mul__ = __rmul__

    def cos(self):
        if abs(self.scale - 2. / 3.) > 1e-15:
            raise NotImplementedError("cos(k*arccos) only for k = 2/3")
        z = sym(self.z)
        c = Ctx.cur
        if SymBool(z3.Or(z.t < -1, z.t > 1)):
            raise ValueError("arccos outside [-1, 1] (nan)")
        v = c.fresh("c3")
        c.assume_def(z3.And(v >= z3.RealVal("1/2"), v <= 1, 4 * v * v * v - 3 * v == z.t), v, None)
        return SymReal(2 * v * v - 1)


def arccos(z):
    if _has_sym(z):
        return _CosArg(z)
    return _np.arccos(z)


# linear algebra -------------------------------------------------------------------------------
def _sumsq(a):
    r = 0.0
    for v in _np.asarray(a).flat:
        r = r + v * v
    return r


DROP_ZERO_IN_NORM = False


def _is_const_zero(v):
    if isinstance(v, SymReal):
        import z3 as _z3
        t = _z3.simplify(v.t)
        return _z3.is_rational_value(t) and t.numerator_as_long() == 0
    if isinstance(v, _SYMT):
        return False
    try:
        return float(v) == 0.0
    except Exception:
        return False


def _vec_norm2(a):
    """Euclidean norm of a flat collection; correct first-order part for jets at the origin."""
    flat = list(_np.asarray(a, dtype=object).flat)
    if DROP_ZERO_IN_NORM:
        # exact: entries that are identically zero do not contribute (keeps rows with an identically-zero task piecewise linear)
        flat = [v for v in flat if not _is_const_zero(v)]
    if not flat:
        return 0.0
    if len(flat) == 1:
        return abs(flat[0])          # exact, and keeps singleton groups / single-task rows piecewise linear
    if not any(isinstance(v, _SYMT) for v in flat):
        from .sym import deround
        return _exact_sqrt(sum(deround(float(v)) ** 2 for v in flat))
    return _s_sqrt(_sumsq(flat))


def norm(x, ord=None, axis=None):
    if isinstance(x, _SYMT):
        return abs(x)
    xa = _np.asarray(x)
    if xa.dtype != object:
        return _np.linalg.norm(xa, ord=ord, axis=axis)
    if xa.size == 0:
        return 0.0
    if axis is not None:
        m = _np.moveaxis(xa, axis, 0)
        assert m.ndim == 2 and ord in (None, 2)
        return sarr([_vec_norm2(m[:, k]) for k in range(m.shape[1])])
    if xa.ndim == 1:
        if ord is None or ord == 2:
            return _vec_norm2(xa)
        if ord == _np.inf:
            return amax(absf(xa.view(SArr)))
        if ord == 1:
            return asum(absf(xa.view(SArr)))
        raise NotImplementedError("norm ord=%r" % (ord,))
    if xa.ndim == 2:
        if ord is None or ord == 'fro':
            return _vec_norm2(xa)
        if ord == 2:
            return spectral_norm_exact(xa)
    raise NotImplementedError("norm of shape %r ord=%r" % (xa.shape, ord))


def spectral_norm_exact(A):
    """Largest singular value; exact closed form when min(shape) <= 2."""
    n, p = A.shape
    if min(n, p) == 1:
        return _vec_norm2(A)
    if p > 2 and n > 2:
        raise NotImplementedError("spectral norm with min(shape) > 2 is outside the bound")
    M = A if p <= 2 else A.T          # M has 2 columns
    a = _sumsq(M[:, 0])
    c = _sumsq(M[:, 1])
    b = 0.0
    for i in range(M.shape[0]):
        b = b + M[i, 0] * M[i, 1]
    half_tr = (a + c) / 2
    disc = ((a - c) / 2) ** 2 + b * b
    lam = half_tr + _s_sqrt(disc)
    return _s_sqrt(lam)


class LinAlgError(_np.linalg.LinAlgError):
    pass


class _LinalgStub:
    """numpy.linalg.solve replaced by a nondeterministic stub (see DESIGN 3-D): any z with sum(z) != 0,
    or LinAlgError.  Harnesses may install a different policy via shim.SOLVE_POLICY."""
    policy = 'arbitrary'   # 'arbitrary' | 'exact'


def solve(A, b):
    A = _np.asarray(A)
    b = _np.asarray(b)
    if A.dtype != object and b.dtype != object:
        return _np.linalg.solve(A, b)
    k = A.shape[0]
    c = Ctx.cur
    if _LinalgStub.policy == 'exact' and k == 1:
        if bool(sym(A[0, 0]) == 0):
            raise _np.linalg.LinAlgError("Singular matrix")
        return sarr([sym(b[0]) / A[0, 0]])
    sing = z3.Bool("linalg_singular#%d" % (c._nfresh + 1))
    c._nfresh += 1
    if bool(SymBool(sing)):
        c.event('linalg_error')
        raise _np.linalg.LinAlgError("Singular matrix (stub)")
    zs = [SymReal(c.fresh("z")) for _ in range(k)]
    tot = zs[0]
    for z in zs[1:]:
        tot = tot + z
    c.assume(tot != 0)
    c.event('linalg_solve_stub')
    return sarr(zs)


def randn(*shape):
    c = Ctx.cur
    n = int(_np.prod(shape)) if shape else 1
    vals = [SymReal(c.fresh("rnd")) for _ in range(n)]
    # contract of a continuous random draw: not identically zero (measure-zero event excluded)
    ss = vals[0] * vals[0]
    for v in vals[1:]:
        ss = ss + v * v
    c.assume(ss > 0)
    if not shape:
        return vals[0]
    return sarr(vals).reshape(shape)


# scipy.sparse CSC reference model --------------------------------------------------------------
class SymCSC:
    """Minimal CSC matrix: symbolic ``data``, concrete ``indptr``/``indices``."""

    def __init__(self, data, indices, indptr, shape):
        self.data = _obj(data)
        self.indices = _np.asarray(indices, dtype=_np.int32)
        self.indptr = _np.asarray(indptr, dtype=_np.int32)
        self.shape = tuple(shape)
        self.dtype = _ObjDtype
        self.ndim = 2
        self.format = 'csc'

    @staticmethod
    def from_dense(X, pattern=None):
        """Build from a dense object array; entries where pattern is False (or that are the exact
        python number 0 when pattern is None) are structural zeros."""
        X = _np.asarray(X, dtype=object)
        n, p = X.shape
        data, indices, indptr = [], [], [0]
        for j in range(p):
            for i in range(n):
                keep = pattern[i][j] if pattern is not None else not (
                    not isinstance(X[i, j], _SYMT) and X[i, j] == 0)
                if keep:
                    data.append(X[i, j])
                    indices.append(i)
            indptr.append(len(data))
        return SymCSC(_np.asarray(data, dtype=object) if data else _np.zeros(0, dtype=object),
                      indices, indptr, (n, p))

    def toarray(self):
        out = zeros(self.shape)
        for j in range(self.shape[1]):
            for k in range(self.indptr[j], self.indptr[j + 1]):
                out[self.indices[k], j] = out[self.indices[k], j] + self.data[k]
        return out

    @property
    def T(self):
        return _SymCSCT(self)

    def dot(self, v):
        return self.toarray() @ _objify(v)

    def __matmul__(self, v):
        return self.dot(v)

    def __rmatmul__(self, v):
        return _objify(v) @ self.toarray()

    def multiply(self, other):
        if isinstance(other, SymCSC):
            return SymCSC(self.data * other.data, self.indices, self.indptr, self.shape)
        d = self.toarray() * _objify(other)
        return SymCSC.from_dense(d, pattern=self._pattern())

    def _pattern(self):
        pat = [[False] * self.shape[1] for _ in range(self.shape[0])]
        for j in range(self.shape[1]):
            for k in range(self.indptr[j], self.indptr[j + 1]):
                pat[self.indices[k]][j] = True
        return pat

    def tocsc(self):
        return self

    def __getitem__(self, key):
        """column selection  X[:, cols]  (what scipy's CSC supports cheaply): a CSC matrix of the selected columns"""
        if isinstance(key, tuple) and len(key) == 2 and isinstance(key[0], slice) and key[0] == slice(None):
            cols = key[1]
            if isinstance(cols, slice):
                cols = list(range(*cols.indices(self.shape[1])))
            cols = [int(c) for c in _np.asarray(cols).ravel()]
            data, idx, ptr = [], [], [0]
            for c in cols:
                if c < 0:
                    c += self.shape[1]
                if not 0 <= c < self.shape[1]:
                    raise IndexError("column index (%d) out of range" % c)
                for k in range(int(self.indptr[c]), int(self.indptr[c + 1])):
                    data.append(self.data[k])
                    idx.append(int(self.indices[k]))
                ptr.append(len(data))
            d = _np.empty(len(data), dtype=object)
            for i, v in enumerate(data):
                d[i] = v
            return SymCSC(d.view(SArr) if len(data) else zeros(0), _np.array(idx, dtype=_np.int32), _np.array(ptr, dtype=_np.int32),
                          (self.shape[0], len(cols)))
        raise NotImplementedError("SymCSC indexing %r" % (key,))

    def copy(self):
        return SymCSC(self.data.copy(), self.indices.copy(), self.indptr.copy(), self.shape)


class _SymCSCT:
    def __init__(self, m):
        self.m = m
        self.shape = (m.shape[1], m.shape[0])

    def dot(self, v):
        if isinstance(v, SymCSC):
            return _Dense(self.m.toarray().T @ v.toarray())
        return self.m.toarray().T @ _objify(v)

    __matmul__ = dot

    def multiply(self, other):
        d = self.m.toarray().T * _objify(other)
        pat = [list(r) for r in zip(*self.m._pattern())]
        return SymCSC.from_dense(d, pattern=pat)

    def toarray(self):
        return self.m.toarray().T


class _Dense:
    def __init__(self, a):
        self.a = a

    def toarray(self):
        return self.a


def issparse(x):
    if isinstance(x, (SymCSC, _SymCSCT)):
        return True
    import scipy.sparse
    return scipy.sparse.issparse(x)


# the module object rebound to the name ``np`` inside skglm ------------------------------------
class _NP(types.ModuleType):
    def __getattr__(self, k):
        return getattr(_np, k)


class _LA(types.ModuleType):
    def __getattr__(self, k):
        return getattr(_np.linalg, k)


class _RND(types.ModuleType):
    def __getattr__(self, k):
        return getattr(_np.random, k)


npx = _NP('npx')
la = _LA('npx.linalg')
rnd = _RND('npx.random')
la.norm = norm
la.solve = solve
rnd.randn = randn
npx.linalg = la
npx.random = rnd
for _k, _v in dict(
        zeros=zeros, ones=ones, empty=empty, full=full, zeros_like=zeros_like, ones_like=ones_like,
        full_like=full_like, array=array, asarray=asarray, asfortranarray=asfortranarray,
        abs=absf, sign=sign, sqrt=sqrt, exp=exp, log=log, log1p=log1p, max=amax, min=amin,
        maximum=maximum, minimum=minimum, sum=asum, mean=mean, any=aany, all=aall, argmax=argmax,
        argmin=argmin, argsort=argsort, argpartition=argpartition, sort=sort, append=append,
        hstack=hstack, vstack=vstack, column_stack=column_stack, diff=diff, dot=dot, cumsum=cumsum,
        where=where, logical_and=logical_and, flatnonzero=flatnonzero, nonzero=nonzero, count_nonzero=count_nonzero, isclose=isclose, cos=cos, arccos=arccos).items():
    setattr(npx, _k, _v)


def bmax(*a, **kw):
    if len(a) == 1:
        a = list(a[0])
    r = a[0]
    for v in a[1:]:
        r = _smax(r, v)
    return r


def bmin(*a, **kw):
    if len(a) == 1:
        a = list(a[0])
    r = a[0]
    for v in a[1:]:
        r = _smin(r, v)
    return r


def bsum(it, start=0):
    r = start
    for v in it:
        r = _plus(r, v)
    return r


class _SparseMod(types.ModuleType):
    def __getattr__(self, k):
        import scipy.sparse
        return getattr(scipy.sparse, k)


sparse_mod = _SparseMod('sparse_shim')
sparse_mod.issparse = issparse

_INSTALLED = False


def install():
    """Rebind np / norm / issparse / sparse / max / min / sum / print inside every skglm module."""
    global _INSTALLED
    import skglm  # noqa
    import skglm.experimental  # noqa
    for name, mod in list(sys.modules.items()):
        if not name.startswith('skglm') or mod is None or '.tests' in name:
            continue
        d = mod.__dict__
        if d.get('np') is _np:
            d['np'] = npx
        if 'norm' in d and d['norm'] is _np.linalg.norm:
            d['norm'] = norm
        if 'issparse' in d:
            d['issparse'] = issparse
        if 'sparse' in d and isinstance(d['sparse'], types.ModuleType):
            d['sparse'] = sparse_mod
        d['max'] = bmax
        d['min'] = bmin
        d['sum'] = bsum
        d['print'] = lambda *a, **k: None
    import warnings
    warnings.filterwarnings('ignore')
    _INSTALLED = True
