"""Concrete replay subprocess.  Reads a JSON request on stdin, writes 'RESULT <json>' on stdout.

With NUMBA_DISABLE_JIT unset this exercises the real numba-compiled build of /repo's current tree.
"""
import importlib
import json
import math
import os
import random
import sys
from fractions import Fraction

VERIF = os.path.dirname(os.path.dirname(os.path.abspath(__file__)))


def _violated(out, obname, known_ids=()):
    """-> (violated?, detail, finding-id whose predicate holds or None)"""
    short = obname.split('/')[-1]
    if out['outcome'] == 'exception' and short == 'no-exception':
        fnd = [k for k, v in (out.get('exc_findings') or {}).items() if v]
        return True, out['exc'], (fnd[0] if fnd else None)
    if short == 'no-exception':
        # numpy semantics: what is a ZeroDivisionError for scalars is a silent nan/inf for arrays
        for ob in out['obligations']:
            if ob['name'].startswith('finite') and not ob['loose']:
                fnd = [k for k, v in ob['findings'].items() if v]
                return True, "non-finite output (%s)" % ob['name'], (fnd[0] if fnd else None)
    for ob in out['obligations']:
        if ob['name'] == short and not ob['loose']:
            fnd = [k for k, v in ob['findings'].items() if v]
            return True, "obligation %s false (info=%s)" % (short, ob.get('info')), (fnd[0] if fnd else None)
    if out['outcome'] == 'exception' and short != 'no-exception':
        # the real build raised where the obligation expected a value: also a violation of finiteness
        return False, "exception instead: " + str(out['exc']), None
    return False, None, None


def _too_large(values, bound=1e8):
    for v in values.values():
        try:
            f = float(Fraction(v)) if isinstance(v, str) else float(v)
        except Exception:
            continue
        if abs(f) >= bound:
            return True
    return False


def _perturb(values, rng, k):
    sig = [0.0, 1e-9, 1e-6, 1e-3, 1e-2, 1e-1, 0.5, 1.0][k % 8]
    out = {}
    for n, v in values.items():
        try:
            f = float(Fraction(v)) if isinstance(v, str) else float(v)
        except Exception:
            out[n] = v
            continue
        if isinstance(v, str) and '/' not in v and '.' not in v and n.startswith('choice'):
            out[n] = v
            continue
        if f == 0 and rng.random() < 0.6:
            out[n] = 0.0          # exact zeros (zero weights, zero columns, zero targets) are often the trigger: keep them
            continue
        out[n] = f + rng.gauss(0, 1) * sig * (abs(f) + (1.0 if (k % 16 >= 8 or f == 0) else 0.0))
    return out


def main():
    req = json.loads(sys.stdin.read())
    sys.path.insert(0, VERIF)
    jit = req['jit']
    from vf.harness import run_unit_float
    if not jit:
        # pure-python float mode: numba type objects used as numpy dtypes are legal only under JIT
        import numpy as _np
        import skglm  # noqa
        import skglm.experimental  # noqa
        for name, m in list(sys.modules.items()):
            if name.startswith('skglm') and m is not None and 'bool_' in m.__dict__:
                m.__dict__['bool_'] = _np.bool_
    mod = importlib.import_module(req['module'])
    units = {u.id: u for u in mod.units(req['tier'])}
    if hasattr(mod, 'units_all'):
        for u in mod.units_all():
            units.setdefault(u.id, u)
    rng = random.Random(req.get('seed', 0) + 12345)
    results = []
    for job in req['jobs']:
        u = units.get(job['unit'])
        if u is None:
            results.append(dict(reproduced=False, detail='unit not found', skipped=True))
            continue
        try:
            if job['kind'] == 'trace':
                exp = dict()
                for n, v in job['observed']:
                    exp.setdefault(n, []).append(v)

                def compare(values):
                    out = run_unit_float(u, values, jit=jit)
                    if out['outcome'] != 'done':
                        return None, "outcome %s %s" % (out['outcome'], out.get('exc')), out['outcome'], 0
                    got = dict()
                    for n, v in out['observed']:
                        got.setdefault(n, []).append(v)
                    bad, ncmp = None, 0
                    for n, vs in exp.items():
                        gs = got.get(n)
                        if gs is None:
                            continue          # not observed in concrete mode
                        if len(gs) != len(vs):
                            return False, "observation %s: different count (control path differs)" % n, 'done', ncmp
                        for a, b in zip(vs, gs):
                            ncmp += 1
                            if not (abs(a - b) <= 1e-6 * (abs(a) + abs(b) + 1)):
                                return False, "observation %s: engine %r vs implementation %r" % (n, a, b), 'done', ncmp
                    return True, None, 'done', ncmp
                ok, bad, outcome, ncmp = compare(job['values'])
                if ok is None:
                    results.append(dict(ok=False, skipped=outcome in ('assumption-failed',), detail=bad))
                    continue
                if ok and ncmp == 0:
                    results.append(dict(ok=False, skipped=True, detail='nothing comparable'))
                    continue
                boundary = False
                if not ok:
                    # The solver's model often sits exactly ON a branch boundary (w == threshold, |r| == delta): float rounding
                    # then takes the other branch.  The engine's path is realised by inputs arbitrarily close to the model,
                    # so the trace counts as validated when a nudged input (relative 1e-9 .. 1e-6) follows it.
                    for k in range(24):
                        sig = [1e-9, 1e-8, 1e-7, 1e-6][k % 4]
                        vals = {}
                        for n, v in job['values'].items():
                            try:
                                f = float(Fraction(v)) if isinstance(v, str) else float(v)
                                vals[n] = f + rng.gauss(0, 1) * sig * (abs(f) + 1.0)
                            except Exception:
                                vals[n] = v
                        ok2, _, _, n2 = compare(vals)
                        if ok2 and n2 > 0:
                            ok, boundary = True, True
                            break
                results.append(dict(ok=bool(ok), detail=None if ok else bad, compared=ncmp, boundary=boundary))
                continue
            # violation / known: direct replay first
            want_fid = job.get('finding')
            found = None
            tries = [job['values']]
            n_search = 0 if job.get('exact') else (400 if not jit else 300)
            if job.get('patched') and not job.get('exact'):
                n_search = -1          # stubs / patched constants: only a run of the unpatched code counts
                found = dict(values=job['values'], detail='symbolic counterexample under stub', fid=None, how='model')
            for k in range(n_search + 1):
                vals = job['values'] if k == 0 else _perturb(job['values'], rng, k)
                if _too_large(vals):
                    continue              # float64 runs at magnitudes >= 1e8 confirm cancellation noise, not behaviour
                out = run_unit_float(u, vals, jit=jit, unpatched=bool(job.get('unpatched')), rng=random.Random(0) if job.get('unpatched') else None)
                if out['outcome'] in ('assumption-failed', 'engine'):
                    continue
                v, detail, fid = _violated(out, job['obligation'])
                if v:
                    if want_fid is not None and fid != want_fid:
                        continue
                    found = dict(values=vals, detail=detail, fid=fid, how='direct' if k == 0 else 'perturbed(%d)' % k)
                    break
            if found is None:
                results.append(dict(reproduced=False, detail='not reproduced on the concrete build in %d tries' % (n_search + 1)))
                continue
            if job.get('patched'):
                # patched constants / stubs were used: confirm with the unpatched code
                found2 = None
                import time as _time
                t_end = _time.time() + float(os.environ.get('VF_SEARCH_S', '45'))
                for k in range(100000):
                    if k >= 200 and _time.time() > t_end:
                        break
                    vals = found['values'] if k == 0 else _perturb(found['values'], rng, k + 3)
                    out = run_unit_float(u, vals, jit=jit, unpatched=True, rng=random.Random(rng.random()))
                    if out['outcome'] in ('assumption-failed', 'engine'):
                        continue
                    v, detail, fid = _violated(out, job['obligation'])
                    if v and (want_fid is None or fid == want_fid):
                        found2 = dict(values=out.get('values', vals), detail=detail, fid=fid, how='unpatched-search(%d)' % k,
                                      unpatched=True)
                        break
                if found2 is None:
                    results.append(dict(reproduced=False,
                                        detail='reproduced only with patched constants; unpatched search failed: ' + str(found['detail'])))
                    continue
                found = found2
            results.append(dict(reproduced=True, unpatched=bool(found.get('unpatched')), values={k: (v if isinstance(v, str) else repr(v)) for k, v in found['values'].items()},
                                detail=found['detail'], how=found['how'], known_pred=found['fid'] if job['kind'] == 'violation' else None))
        except Exception as e:
            import traceback
            results.append(dict(reproduced=False, ok=False, detail="replay crashed: %s: %s\n%s" % (type(e).__name__, e, traceback.format_exc(limit=5))))
    print('RESULT ' + json.dumps(results))


if __name__ == '__main__':
    main()
