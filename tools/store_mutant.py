#!/usr/bin/env python3
"""store a confirmed seeded change:  store_mutant.py <PROP> <src-dir> <name> <caught_by> [<baseline-line>]
copies patch.diff / demo.py / notes.md and writes meta.json (change / trigger are taken from notes.md)"""
import json, os, re, shutil, sys

prop, src, name, caught = sys.argv[1:5]
base = sys.argv[5] if len(sys.argv) > 5 else ''
dst = os.path.join(os.path.dirname(os.path.dirname(os.path.abspath(__file__))), 'seeded', name)
os.makedirs(dst, exist_ok=True)
for f in ('patch.diff', 'demo.py', 'notes.md'):
    shutil.copy(os.path.join(src, f), os.path.join(dst, f))
notes = open(os.path.join(src, 'notes.md')).read()
title = notes.strip().splitlines()[0].lstrip('# ').strip()
m = re.search(r'(?im)^[-*] *(?:what is |what\'s )?(?:needed|need)[^\n:]*:(.*?)(?=^\s*[-*] |\Z)', notes, re.S | re.M)
needs = ' '.join(m.group(1).split())[:600] if m else ''
meta = dict(property=prop, change=title, needs_to_manifest=needs, caught_by=caught,
            origin="independent sub-agent given only the property text and a scratch worktree (round 2)",
            confirmed=dict(demo_fails_with_patch_passes_without=True, baseline_188_pass_with_patch=bool(base), baseline_line=base,
                           how="tools/try_mutant.sh (demo with/without in the agent's worktree; patch applied to /repo, quick check run, "
                               "/repo restored); baseline re-run by me in the worktree with the patch applied"),
            check_cmd="git -C /repo apply /verif/seeded/%s/patch.diff && bin/vf %s --tier quick; git -C /repo checkout -- ." % (name, prop))
json.dump(meta, open(os.path.join(dst, 'meta.json'), 'w'), indent=1)
print('stored', dst)
