#!/bin/bash
# usage: try_mutant_wt.sh <agent-worktree> <mutant-dir-name> <PROP> [extra vf args...]
# like try_mutant.sh but never touches /repo: the patch is applied to a scratch worktree of /repo's HEAD and the check is
# run against it (VF_REPO); the scratch worktree is removed afterwards
WT=$1; M=$2; PROP=$3; shift 3
D=$WT/$M
cd $WT || exit 9
git checkout -q -- skglm 2>/dev/null
echo "== demo without patch"; (cd $WT && PYTHONPATH=$WT timeout 900 /venv/bin/python $D/demo.py >/tmp/demo_out.$$ 2>&1; echo "rc=$?"; tail -1 /tmp/demo_out.$$ | cut -c1-200)
git apply $D/patch.diff || { echo "patch does not apply in worktree"; exit 9; }
echo "== demo with patch"; (cd $WT && PYTHONPATH=$WT timeout 900 /venv/bin/python $D/demo.py >/tmp/demo_out.$$ 2>&1; echo "rc=$?"; tail -1 /tmp/demo_out.$$ | cut -c1-200)
git checkout -q -- skglm; rm -f /tmp/demo_out.$$
S=$(mktemp -d /tmp/vf_try.XXXXXX)
git -C /repo worktree add -q --detach $S HEAD || exit 9
git -C $S apply $D/patch.diff || { echo "patch does not apply to HEAD"; git -C /repo worktree remove --force $S; exit 9; }
cd /verif && VF_REPO=$S bin/vf $PROP --tier quick --no-evidence "$@" | grep -E "^(VIOLATION|KNOWN|UNCONF|HARNESS|VACUOUS|TRACE|INCONC|$PROP)" | cut -c1-250 | head -6
git -C /repo worktree remove --force $S
