#!/bin/bash
# Runs the pinned baseline command and reports which of the 188 stable-pass tests no longer pass.
OUT=$(mktemp /tmp/junit.XXXXXX.xml)
(cd /repo && /venv/bin/python -m pytest -ra -q -p no:cacheprovider --timeout=900 --continue-on-collection-errors --junitxml=$OUT >/dev/null 2>&1)
python3 - "$OUT" <<'PY'
import json,sys,xml.etree.ElementTree as ET
base=set(json.load(open('/root/.vp/BASELINE.json'))['stable_pass'])
t=ET.parse(sys.argv[1]).getroot()
passed=set()
for tc in t.iter('testcase'):
    if not any(c.tag in ('failure','error','skipped') for c in tc):
        passed.add(tc.get('classname')+'::'+tc.get('name'))
missing=sorted(base-passed)
print("baseline stable_pass=%d now passing=%d missing=%d"%(len(base),len(base&passed),len(missing)))
for m in missing: print("  MISSING",m)
sys.exit(1 if missing else 0)
PY
rc=$?
rm -f $OUT
exit $rc
