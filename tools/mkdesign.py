#!/usr/bin/env python3
"""regenerate the machine-derived tables of DESIGN.md (between BEGIN/END markers) from known_findings.json,
seeded/*/meta.json (+ last_result.txt) and the check modules' MANIFEST dicts"""
import glob, json, os, re, sys
ROOT = os.path.dirname(os.path.dirname(os.path.abspath(__file__)))


def findings_table():
    d = json.load(open(os.path.join(ROOT, 'known_findings.json')))
    rows = ["| id | status | properties | commit | what failed |", "|---|---|---|---|---|"]
    for e in d['findings']:
        rows.append("| %s | %s | %s | %s | %s |" % (e['id'], e['status'], ', '.join(e.get('properties', [])), e.get('commit', '-'),
                                                   e['what'].replace('|', '\\|')))
    return '\n'.join(rows)


def seeded_table():
    rows = ["| seeded change | property | what was changed | caught by (quick tier) | last matrix run |", "|---|---|---|---|---|"]
    for mp in sorted(glob.glob(os.path.join(ROOT, 'seeded', '*', 'meta.json'))):
        m = json.load(open(mp))
        name = os.path.basename(os.path.dirname(mp))
        lr = os.path.join(os.path.dirname(mp), 'last_result.txt')
        last = '-'
        if os.path.exists(lr):
            t = open(lr).read()
            mm = re.search(r'violations=(\d+)', t)
            ob = re.search(r'obligation=(\S+)', t)
            last = ('%s violation line(s)' % mm.group(1) if mm else '?') + ((': `%s`' % ob.group(1)[:110]) if ob else '')
        rows.append("| %s | %s | %s | %s | %s |" % (name, m['property'], m['change'].replace('|', '\\|')[:200],
                                                   m.get('caught_by', '').replace('|', '\\|')[:260], last.replace('|', '\\|')))
    return '\n'.join(rows)


def claims_table():
    sys.path.insert(0, ROOT)
    man = json.load(open(os.path.join(ROOT, 'MANIFEST.json')))
    rows = ["| property | level claimed | technique | quick bound | thorough bound |", "|---|---|---|---|---|"]
    import importlib
    os.environ.setdefault('NUMBA_DISABLE_JIT', '1')
    for c in man['checks']:
        pid = c['property']
        try:
            mod = importlib.import_module('checks.' + pid.lower())
            b = getattr(mod, 'BOUNDS', {})
        except Exception:
            b = {}
        rows.append("| %s | %s | %s | %s | %s |" % (pid, c.get('level_claimed', ''), c.get('technique', '')[:80], str(b.get('quick', ''))[:200],
                                                   str(b.get('thorough', ''))[:200]))
    return '\n'.join(rows)


def main():
    p = os.path.join(ROOT, 'DESIGN.md')
    s = open(p).read()
    for key, fn in (('findings', findings_table), ('seeded', seeded_table)):
        a, b = '<!-- BEGIN:%s -->' % key, '<!-- END:%s -->' % key
        if a in s and b in s:
            s = s[:s.index(a) + len(a)] + '\n' + fn() + '\n' + s[s.index(b):]
    open(p, 'w').write(s)


if __name__ == '__main__':
    main()
