#!/usr/bin/env python3
"""Regenerates /verif/MANIFEST.json from the per-check metadata (checks/cNN.py: MANIFEST dict)."""
import importlib, json, os, sys
V = os.path.dirname(os.path.dirname(os.path.abspath(__file__)))
sys.path.insert(0, V)
props = [json.loads(l) for l in open(os.path.join(V, 'properties.jsonl'))]
checks, na = [], []
for p in props:
    pid = p['id']
    path = os.path.join(V, 'checks', pid.lower() + '.py')
    meta = None
    if os.path.exists(path):
        src = open(path).read()
        ns = {}
        # metadata is a literal dict assigned to MANIFEST at module level
        import ast
        tree = ast.parse(src)
        for node in tree.body:
            if isinstance(node, ast.Assign) and getattr(node.targets[0], 'id', None) == 'MANIFEST':
                meta = eval(compile(ast.Expression(node.value), path, 'eval'), {'dict': dict})
    if meta is None or not meta.get('claimed', True):
        na.append(dict(property_id=pid, reason=(meta or {}).get('reason', 'check not built yet (work in progress); see DESIGN.md section 7 for the planned harness')))
        continue
    checks.append(dict(
        property_id=pid,
        quick_cmd="bin/vf %s --tier quick" % pid,
        thorough_cmd="bin/vf %s --tier thorough" % pid,
        evidence_file="/verif/evidence/%s.json" % pid,
        replay_cmd_template="bin/vf %s --replay {path}" % pid,
        engine="symx",
        level_claimed=dict(category="model_checking", text=meta['level_text'], design_ref=meta.get('design_ref', 'DESIGN.md section 7, ' + pid)),
        level_note=meta['level_note'],
        technique=meta.get('technique', "bounded symbolic execution of the real Python source (numba disabled) with z3 (qfnra-nlsat) deciding every path obligation; counterexamples replayed on the numba-compiled build"),
    ))
man = dict(
    version=1,
    setup_cmd="bin/vf --bootstrap",
    hooks=dict(guard="SKGLM_VERIF", enable="no source hooks are needed: checks run /repo's working tree with NUMBA_DISABLE_JIT=1 (a numba switch) and rebind names inside the check process only",
               baseline_off_cmd="cd /repo && /venv/bin/python -m pytest -ra -q -p no:cacheprovider --timeout=900 --continue-on-collection-errors",
               source_commits=[], add_only=True),
    engines=[dict(name="symx", path="/verif/vf", serves_properties=[c['property_id'] for c in checks],
                  kind_free_text="symbolic execution of skglm's own Python source (object-dtype numpy arrays of z3 Real terms, path exploration by re-execution), z3 per-path obligations, replay on the jitted build")],
    checks=checks,
    notes="Solver-based checking only. Bounds, stubs and what lies outside each claim are in DESIGN.md and in each check's level_note; genuine defects found are in known_findings.json (fixed ones as 'fix:' commits in /repo).",
    not_applicable=na,
)
json.dump(man, open(os.path.join(V, 'MANIFEST.json'), 'w'), indent=1)
print("claimed:", [c['property_id'] for c in checks], "n/a:", len(na))
