#!/bin/bash
# usage: catch_matrix.sh [name ...]   -- for every stored seeded change (default: all) apply it to a scratch worktree of
# /repo's HEAD, run the quick check of its property against that tree, and record the outcome in seeded/<name>/last_result.txt
# (the worktree is removed afterwards; /repo itself is not touched)
cd /verif || exit 9
WT=$(mktemp -d /tmp/vf_matrix.XXXXXX)
git -C /repo worktree add -q --detach $WT HEAD || exit 9
names="$@"; [ -z "$names" ] && names=$(ls seeded)
for n in $names; do
  d=seeded/$n
  P=$(python3 -c "import json;print(json.load(open('$d/meta.json'))['property'])")
  git -C $WT checkout -q -- . ; git -C $WT apply $PWD/$d/patch.diff || { echo "$n APPLY-FAILED" | tee $d/last_result.txt; continue; }
  out=$(VF_REPO=$WT bin/vf $P --tier quick --no-evidence 2>&1 | grep -E "^(VIOLATION|KNOWN|UNCONF|HARNESS|VACUOUS|TRACE|$P tier)" | cut -c1-260)
  nv=$(echo "$out" | grep -c "^VIOLATION")
  { echo "seeded=$n property=$P violations=$nv head=$(git -C /repo rev-parse --short HEAD)"; echo "$out" | grep "^VIOLATION" | head -3; echo "$out" | grep "tier=" ; } | tee $d/last_result.txt
done
git -C $WT checkout -q -- .
git -C /repo worktree remove --force $WT
rm -f replays/*.json.tmp
