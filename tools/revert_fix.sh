#!/bin/bash
# usage: revert_fix.sh <fix-sha> <PROP> [tier] -- reverse-applies a fix commit to /repo's working tree,
# runs the check (expected exit 1), then restores the tree.
sha=$1; prop=$2; tier=${3:-quick}
cd /repo && git diff --quiet || { echo "repo dirty"; exit 9; }
git show $sha | git apply -R || exit 9
cd /verif && bin/vf $prop --tier $tier --no-evidence | grep -E "^(VIOLATION|KNOWN|UNCONF|HARNESS|VACUOUS|$prop)" | cut -c1-260 | head -${4:-8}
rc=${PIPESTATUS[0]}
git -C /repo checkout -- .
echo "exit=$rc"
