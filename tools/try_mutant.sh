#!/bin/bash
# usage: try_mutant.sh <worktree> <mutant-dir-name> <PROP> [tier]
# 1) confirms the demo fails with the patch and passes without it (in the scratch worktree)
# 2) applies the patch to /repo, runs the check, restores /repo
WT=$1; M=$2; PROP=$3; TIER=${4:-quick}
D=$WT/$M
cd $WT || exit 9
git checkout -q -- skglm 2>/dev/null
echo "== demo without patch"; (cd $WT && PYTHONPATH=$WT timeout 900 /venv/bin/python $D/demo.py 2>&1 | tail -2); echo "rc=$?"
git apply $D/patch.diff || { echo "patch does not apply in worktree"; exit 9; }
echo "== demo with patch"; (cd $WT && PYTHONPATH=$WT timeout 900 /venv/bin/python $D/demo.py 2>&1 | tail -2); echo "rc=$?"
git checkout -q -- skglm
cd /repo && git diff --quiet || { echo "repo dirty"; exit 9; }
git apply $D/patch.diff || { echo "patch does not apply to /repo"; exit 9; }
cd /verif && bin/vf $PROP --tier $TIER --no-evidence | grep -E "^(VIOLATION|KNOWN|UNCONF|HARNESS|VACUOUS|TRACE|INCONC|$PROP)" | cut -c1-250 | head -6
git -C /repo checkout -- .
