#!/bin/bash
# usage: run_all.sh <tier> [PROP ...]   -- runs the registered command of every (or the listed) property, one after the other,
# and prints one summary line per property (exit code, wall time); evidence files are rewritten by the runs themselves
cd /verif || exit 9
TIER=${1:-quick}; shift
PROPS="$@"; [ -z "$PROPS" ] && PROPS="C01 C02 C03 C04 C05 C06 C07 C08 C09 C10 C11 C12 C13 C14 C15 C16 C17 C18 C19 C20"
for P in $PROPS; do
  t0=$(date +%s)
  out=$(bin/vf $P --tier $TIER 2>&1 | grep -E "^(VIOLATION|KNOWN|UNCONF|HARNESS|VACUOUS|TRACE|INCONC|$P tier)" | cut -c1-300)
  rc=$(echo "$out" | grep -oE "exit=[0-9]+" | tail -1)
  echo "== $P tier=$TIER $rc wall=$(( $(date +%s) - t0 ))s"
  echo "$out" | grep -vE "^$P tier" | head -6
  echo "$out" | grep -E "^$P tier"
done
